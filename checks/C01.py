"""C01 - every unit converts by the factor its own symbol implies, to a few ulps."""
import os
from fractions import Fraction as F
from lib import vf, units
from lib.units import uo


def factor_file(ctx, bound):
    p = ctx.path('c01_factors_%s.txt' % vf.sha(repr([(u['type'], u['number'], u['abbr']) for u in bound]))[:12])
    with open(p, 'w') as f:
        for u in bound:
            a = u['reading'].f * uo.PIF ** u['reading'].p
            f.write('%s %d %s %s %s\n' % (u['type'], u['number'], u['name'], uo.dec(a), uo.dec(u['offset'])))
    return p


def run(ctx):
    h = ctx.h
    recs = units.dump(ctx)
    bound, oerr = units.bind(recs)
    if oerr:
        raise vf.Undecided('unit oracle does not cover: ' + '; '.join(oerr[:5]))
    nounit = [u for u in bound if u['reading'] is None]
    for u in nounit:
        # the symbol has no reading with the declared dimension set: C06's violation; C01 cannot
        # attribute a factor, so the unit's pairs are reported here as well
        h.viols.append(('symbol-has-no-factor|%s|%s' % (u['type'], u['name']),
                        {'symbol': u['abbr'], 'what': 'no reading of the unit symbol has the declared dimension set'}))
    bound_ok = [u for u in bound if u['reading'] is not None]
    ff = factor_file(ctx, bound_ok)
    src = vf.read(os.path.join(vf.VERIF, 'harness', 'c01.cpp')).decode()
    ts = [t for t in units.enum_types() if t['kind'] == 0]
    count = {}
    for u in bound_ok:
        count[u['type']] = count.get(u['type'], 0) + 1
    thorough = ctx.tier == 'thorough'
    # the compile-time path is instantiated for ALL ordered pairs in both tiers (one thin thunk per pair)
    jobs = [{'name': 'c01_' + t['name'] + '_all', 'src': src, 'opt': '-O1',
             'flags': ['-DVF_HDR=%s' % t['hdr'], '-DVF_E=%s' % t['cpp'], '-DVF_ENAME="%s"' % t['name'], '-DVF_STATIC_ALL=1']} for t in ts]
    bins = ctx.build_all(jobs)
    runs = []
    for t, (b, err) in zip(ts, bins):
        if not b:
            raise vf.Undecided('c01 for %s does not compile: %s' % (t['name'], err[:1500]))
        n = count.get(t['name'], 0)
        nparts = max(1, min(16, (n * n) // 400))
        for part in range(nparts):
            runs.append((b, [ff, part, nparts]))
    if thorough:
        # every float mantissa for every ordered pair (container form), every float bit pattern for the affine pairs
        for t, (b, err) in zip(ts, bins):
            n = count.get(t['name'], 0)
            nparts = max(1, min(64, (n * n) // 40)) if t['name'] != 'Temperature' else 16
            for part in range(nparts):
                runs.append((b, [ff, part, nparts, 'floatsweep']))
    # largest first
    runs.sort(key=lambda r: -r[1][2])
    ctx.pmap(lambda r: ctx.run(r[0], r[1]), runs)
    npairs = sum(c * c for c in count.values())
    h.stats['units'] = len(bound)
    h.stats['ordered_pairs_total'] = npairs
    h.stats['ordered_pairs_total'] = npairs
    if h.stat('ordered_pairs_runtime') != 3 * npairs:
        raise vf.Undecided('expected %d run-time (pair, numeric type) sweeps, harness reports %d' % (3 * npairs, h.stat('ordered_pairs_runtime')))
    rule = ('all ordered pairs of units within each unit type (enumerators by reflection) x {float, double, long double} x '
            'value alphabet V_lin/V_aff (DESIGN Appendix B: +-0, boundary and stratified mantissas x extreme/middle binades, both '
            'signs, cancellation neighbourhoods for temperatures), through PhQ::Convert; ConvertStatically for %s%s. Reference: '
            '(a_from*x + b_from - b_to)/a_to in __float128 with a, b from the unit symbols only. tolerance 8 ulp per hop. '
            'distinct_nontrivial = conversions between two different units') % (
                'all ordered pairs',
                '; additionally ALL 2^23 float mantissas x 2 signs x 3 binades through ConvertInPlace(std::vector<float>) for every ordered linear pair and all 2^32 float bit patterns for the affine temperature pairs' if thorough else '')
    return vf.finish(ctx, 'exploration', rule, h.stat('conversions'), h.stat('nontrivial_conversions'), True,
                     coverage={'configurations': npairs * 3})
