"""C02 - all conversion entry points agree; a quantity read back in its unit is unchanged."""
import os
from lib import vf, qh, units


def run(ctx):
    h = ctx.h
    thorough = ctx.tier == 'thorough'
    built = qh.build(ctx, 'c02_q.cpp', nchunks=32, opt='-O0')
    for c, r in built:
        if not r[0]:
            raise vf.Undecided('c02_q does not compile for %s: %s' % (c, r[1][:2500]))
    src = vf.read(os.path.join(vf.VERIF, 'harness', 'c02_u.cpp')).decode()
    ts = [t for t in units.enum_types() if t['kind'] == 0]
    jobs = [{'name': 'c02u_' + t['name'], 'src': src, 'opt': '-O0',
             'flags': ['-DVF_HDR=%s' % t['hdr'], '-DVF_E=%s' % t['cpp'], '-DVF_ENAME="%s"' % t['name']]} for t in ts]
    bins = ctx.build_all(jobs)
    runs = [(r[0], []) for c, r in built]
    for t, (b, err) in zip(ts, bins):
        if not b:
            raise vf.Undecided('c02_u for %s does not compile: %s' % (t['name'], err[:2500]))
        nparts = 16 if (t['name'] in ('MemoryRate', 'Memory', 'Acceleration', 'Speed')) else (4 if thorough else 2)
        runs += [(b, [p, nparts]) for p in range(nparts)]
    ctx.pmap(lambda r: ctx.run(r[0], r[1]), runs)
    rule = ('every dimensional quantity type (found by probing Unit()) x every unit of its unit type (reflection) x 3 numeric types: '
            'Q(value,u) in all constructor forms, Create<u> in all overloads, Value(u2), StaticValue<u>, and the numbers inside '
            'Print/JSON/XML/YAML(u2) for u2 in {u, next(u), standard}%s compared slot by slot with the scalar PhQ::Convert of each '
            'component (<= 1 ulp); construct-in-u/read-in-u round trip (<= 16 ulp of the affine scale). Free functions per unit type: '
            'Convert / ConvertInPlace on scalar, array<1,2,3,6,9,17>, vector<0,1,5,64,1000,1024,4096>, PlanarVector, Vector, SymmetricDyad, Dyad for '
            'ALL ordered unit pairs for the small forms (scalar, array<1..9>, vector<0,1,5>, the four vector/tensor classes) and unit pairs {(u,u), (u,next u), (u,std), (std,u)}%s for the large containers, and ConvertStatically on all container forms for (u,std), (std,u), '
            '(u,u): each slot equals the scalar conversion of that slot, copying forms leave the argument unchanged, in-place == copying, '
            'unit to itself is the identity. Slot values are pairwise distinct (+-p_i/8+2^-20). distinct_nontrivial = comparisons '
            'between two different units') % ((' and all other units' if thorough else ''), (' plus all ordered pairs' if thorough else ''))
    ev = h.stat('comparisons') + h.stat('container_conversions')
    return vf.finish(ctx, 'exploration', rule, ev, ev - h.stat('static_unit_instances'), True,
                     coverage={'quantity_instances': h.stat('quantity_instances'), 'unit_pairs': h.stat('unit_pairs')})
