"""C03 - every relation between quantities is dimensionally homogeneous."""
from lib import vf, rel


def run_mode(ctx, mode):
    R, items, jobs, res = rel.build(ctx, mode)
    bad = [(j, r[1]) for j, r in zip(jobs, res) if not r[0]]
    if bad:
        raise vf.Undecided('generated relation harness %s does not compile: %s' % (bad[0][0]['name'], bad[0][1][:3000]))
    runs = [(r[0], [t]) for r in res for t in ('float', 'double', 'longdouble')]
    ctx.pmap(lambda x: ctx.run(x[0], x[1]), runs)
    return R, items


def run(ctx):
    h = ctx.h
    R, items = run_mode(ctx, 3)
    h.stats['operators_found'] = len(R['ops'])
    h.stats['constructors_found'] = len(R['ctors'])
    h.stats['members_found'] = len(R['members'])
    h.stats['relations_generated'] = len(items)
    h.samples.append({'relation': 'Speed(Length, Time)', 'check': 'each base unit x4 in turn (and all at once): Speed(4^dL * l, 4^dT * t) == 4^(dL-dT) * Speed(l, t)'})
    rule = ('the complete relation set discovered by the compiler from the tree (all 92x93 operand pairs for + - * /, all one-argument and '
            'name-filtered two-argument constructor tuples, text-scanned and compiler-confirmed 3/4-argument constructors and member '
            'functions returning quantities) x 3 numeric types: (1) static: result dimension set = sum / difference / same as the operand '
            'sets for * / + -; (2) dynamic: for each of the 7 base units (and all at once), multiplying every operand by 4^exponent '
            '(exponents from the declared dimension sets) multiplies the result by 4^(result exponent) - exact in binary floating point, '
            'accepted to 4 ulp; operand values slot- and component-distinct with both signs. distinct_nontrivial = relations checked x numeric types')
    ev = h.stat('rescaling_evaluations') + h.stat('static_dimension_checks')
    return vf.finish(ctx, 'exploration', rule, ev, h.stat('relations_checked'), True, coverage={'programs': len(items) * 3})
