"""C04 - arithmetic on quantities is exactly arithmetic on their SI values."""
import os
from lib import vf, rel, inst, qh
from checks.C03 import run_mode


def hist_sources(ctx, R):
    """generated history harness: for every quantity type with compound assignments, register its operations"""
    qs = vf.quantity_names()
    by = {}
    for c in R['compound']:
        by.setdefault(c['a'], []).append(c)
    inc = ''.join('#include <PhQ/%s.hpp>\n' % n for n in qs)
    dep = vf.sha(vf.read(os.path.join(vf.VERIF, 'harness', 'c04_hist.hpp')), vf.read(os.path.join(vf.VERIF, 'harness', 'rel_check.hpp')))
    jobs = []
    names = sorted(by)
    for ci, ch in enumerate(qh.chunks(qs, 16)):
        body = ''
        for q in ch:
            body += '  {\n    using Q = PhQ::%s<T>;\n' % q
            if q in by:
                body += '    hist::Explorer<Q> ex;\n    ex.qname = "%s";\n' % q
                for c in by[q]:
                    if c['op'] in ('+=', '-='):
                        body += '    hist::add_plus_minus<Q, %s>(ex, "%s", %s);\n' % (rel.cxx(c['b']), c['b'], 'true' if c['op'] == '+=' else 'false')
                    elif c['b'] == 'number':
                        body += '    hist::add_times_divide<Q>(ex, %s);\n' % ('true' if c['op'] == '*=' else 'false')
                    else:
                        body += '    vf::setadd("compound_forms_not_modelled", "%s%s%s");\n' % (q, c['op'], c['b'])
                has_plus = any(c['op'] == '+=' and c['b'] == q for c in by[q]) and any(c['op'] == '-=' and c['b'] == q for c in by[q])
                has_times = any(c['op'] == '*=' and c['b'] == 'number' for c in by[q]) and any(c['op'] == '/=' and c['b'] == 'number' for c in by[q])
                body += '    if constexpr (hist::HasMutableValueQ<Q>::value) hist::add_aliasing<Q>(ex, %s, %s);\n' % ('true' if has_plus else 'false', 'true' if has_times else 'false')
                if has_times:
                    body += '    hist::add_other_number_types<Q>(ex);\n'
                body += '    ex.run();\n'
            body += '    hist::math_all<Q>("%s");\n  }\n' % q
        src = (inc + '#include "c04_hist.hpp"\n// dep %s\ntemplate <class T>\nvoid all() {\n%s}\n' % (dep, body) +
               'int main() {\n  const bool th = std::getenv("VERIF_TIER") && std::string(std::getenv("VERIF_TIER")) == "thorough";\n  hist::DEPTH = th ? 5 : 4;\n'
               '  all<float>();\n  all<double>();\n  all<long double>();\n}\n')
        jobs.append({'name': 'c04hist_%02d' % ci, 'src': src, 'opt': '-O1'})
    # the four value shapes themselves (their compound kernels are what the quantity-level assignments forward to)
    raw = ''
    for nm in ('PlanarVector', 'Vector', 'SymmetricDyad', 'Dyad'):
        raw += ('  {\n    using Q = PhQ::%s<T>;\n    hist::Explorer<Q> ex;\n    ex.qname = "%s";\n    hist::add_plus_minus<Q, Q>(ex, "%s", true);\n'
                '    hist::add_plus_minus<Q, Q>(ex, "%s", false);\n    hist::add_times_divide<Q>(ex, true);\n    hist::add_times_divide<Q>(ex, false);\n'
                '    hist::add_aliasing<Q>(ex, true, true);\n    hist::add_other_number_types<Q>(ex);\n    ex.run();\n  }\n') % (nm, nm, nm, nm)
    src = (inc + '#include "c04_hist.hpp"\n// dep %s\ntemplate <class T>\nvoid all() {\n%s}\n' % (dep, raw) +
           'int main() {\n  const bool th = std::getenv("VERIF_TIER") && std::string(std::getenv("VERIF_TIER")) == "thorough";\n  hist::DEPTH = th ? 5 : 4;\n'
           '  all<float>();\n  all<double>();\n  all<long double>();\n}\n')
    jobs.append({'name': 'c04hist_raw', 'src': src, 'opt': '-O1'})
    return jobs


def run(ctx):
    h = ctx.h
    # instantiability: every member of every class for all three numeric types (R5)
    sw = inst.sweep(ctx)
    for (loc, t), msg in sorted(sw['failing'].items()):
        h.viols.append(('uninstantiable|%s|%s' % (loc, t), {'location': loc, 'numeric_type': t, 'compiler_message': msg,
                                                           'what': 'a member that instantiates for one numeric type does not instantiate for this one'}))
    h.stats['instantiated_classes_x_numeric_types'] = sw['instances']
    h.notes.append('dead code (instantiates for no numeric type, excluded): %s' % sorted(sw['dead'].items()))
    if sw['failing']:
        return vf.finish(ctx, 'model_checking', 'instantiability sweep only (relation harness cannot be built)', sw['instances'], 2, False,
                         coverage={'states': 1, 'transitions': 1, 'traces_validated_against_impl': 0})
    R, items = run_mode(ctx, 4)
    jobs = hist_sources(ctx, R)
    res = ctx.build_all(jobs)
    for j, r in zip(jobs, res):
        if not r[0]:
            raise vf.Undecided('history harness %s does not compile: %s' % (j['name'], r[1][:3000]))
    ctx.pmap(lambda r: ctx.run(r[0]), res)
    h.stats['operator_instances_found'] = len(R['ops'])
    h.stats['compound_assignments_found'] = len(R['compound'])
    h.stats['math_overloads_found'] = len(h.sets.get('math_overloads', ()))
    if h.sets.get('definitional_operators'):
        h.notes.append('operators whose stored values do not combine by the same plain operator (tied to their constructor twin instead): %s' % sorted(h.sets['definitional_operators']))
    cov = {'states': h.stat('states'), 'transitions': h.stat('transitions'), 'traces_validated_against_impl': h.stat('transitions'),
           'programs': len(items) * 3,
           'explanation': 'histories: explicit-state BFS with state hashing over compound-assignment sequences on the real objects, each '
                          'transition compared with the pure-operator chain and with plain-number arithmetic; operators: exhaustive sweep of '
                          'all discovered operator instances x 3 numeric types, bitwise against the same operator on the stored values'}
    rule = ('(1) every (class, numeric type) explicitly instantiated with all members; (2) every discovered operator instance (quantity op '
            'quantity, quantity op number, number * quantity) x 3 numeric types x 5 operand tuples of both signs: stored result bitwise equal '
            'to the same operator applied to the stored operands (operand order exposed by asymmetric values), every constructor with an '
            'operator twin bitwise equal to it; (3) BFS over histories of all discovered compound assignments x 3 operand values to depth '
            '%d with state hashing: state after each transition equals the pure-operator result and the plain-number model; (4) std:: '
            'abs/sqrt/cbrt/exp/log/log2/log10/pow overloads of every dimensionless scalar type bitwise equal to the function of Value()') % (5 if ctx.tier == 'thorough' else 4)
    ev = h.stat('operator_evaluations') + h.stat('twin_evaluations') + h.stat('transitions') + h.stat('math_evaluations')
    return vf.finish(ctx, 'model_checking', rule, ev, h.stat('states'), True, coverage=cov)
