"""C05 - relations that undo each other really are mutual inverses."""
from lib import vf
from checks.C03 import run_mode


def run(ctx):
    h = ctx.h
    R, items = run_mode(ctx, 5)
    h.stats['inverse_pairs_generated'] = len(items)
    h.samples.append({'pair': 'Speed(DynamicPressure, MassDensity) recovers Speed from DynamicPressure(MassDensity, Speed)',
                      'grid': 'a, b = m*2^e, e in {-40,-12,-1,0,3,17,40} (+-20 float), m in {1, 1.375, 1.9, and one that puts the second operand next to 1}, component i scaled by (1+i/16)'})
    rule = ('inverse pairs derived mechanically from the discovered relation set: every two-argument constructor C(A,B) with a constructor '
            'A(C,B)/A(B,C) (and for the second operand), every operator without a constructor twin paired with its opposite operator '
            '(+ with -, * with /, in the operand orders that undo it), every one-argument constructor / member pair A->C, C->A starting '
            'from the smaller shape; x 3 numeric types x positive magnitude grid 2^e*m over 80 binades (40 for float). Oracle: '
            'g(f(a,b),b) == a within the largest change of g when any component of the rounded intermediate c moves by +-1,+-2,+-4 ulp (the shared exact operand b is not perturbed), floored at 8 ulp of '
            '|a| (perturbation oracle R3 with the implementation as its own sensitivity probe); non-finite intermediates skipped and counted. '
            'distinct_nontrivial = inverse pairs x numeric types checked')
    return vf.finish(ctx, 'exploration', rule, h.stat('round_trips'), h.stat('inverse_pairs_checked'), True,
                     coverage={'programs': len(items) * 3})
