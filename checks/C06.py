"""C06 - declared dimension sets equal the dimensions of the units themselves."""
import os
from lib import vf, units, qh
from lib.units import uo


def run(ctx):
    h = ctx.h
    recs = units.dump(ctx)
    bound, oerr = units.bind(recs)
    if oerr:
        raise vf.Undecided('unit oracle does not cover: ' + '; '.join(oerr[:5]))
    ev = 0
    nontriv = set()
    # (1) each unit's own symbol has the declared dimension set
    type_dims = {}
    for u in bound:
        ev += 1
        declared = tuple(u['rec']['dims'])
        type_dims.setdefault(u['type'], set()).add(declared)
        nontriv.add((u['type'], u['name']))
        if declared not in [tuple(d) for d in u['all_dims']]:
            h.viols.append(('unit-dims|%s|%s' % (u['type'], u['name']),
                            {'unit': u['name'], 'symbol': u['abbr'], 'declared T L M I Th N J': list(declared),
                             'symbol_expands_to': [list(d) for d in u['all_dims']],
                             'what': 'RelatedDimensions of the unit type differ from the exponents obtained by expanding the unit symbol'}))
    h.stats['units'] = len(bound)
    h.stats['unit_types'] = len(type_dims)
    h.samples.append({'unit': 'SpecificHeatCapacity::' + next((u['name'] for u in bound if u['abbr'] == 'ft·lbf/slug/°R'), '?'),
                      'symbol': 'ft·lbf/slug/°R',
                      'expanded': [list(d) for u in bound if u['abbr'] == 'ft·lbf/slug/°R' for d in u['all_dims']]})
    # (2) every quantity type reports the dimension set of its unit type; dimensionless -> empty
    built = qh.build(ctx, 'c06_q.cpp', nchunks=16, opt='-O0')
    for c, r in built:
        if not r[0]:
            raise vf.Undecided('c06_q does not compile for %s: %s' % (c, r[1][:1500]))
    outs = ctx.pmap(lambda cr: ctx.run(cr[1][0], feed=False), built)
    nq = 0
    for o in outs:
        for l in o.splitlines():
            if not l.startswith('QDIMS '):
                continue
            name, t, ut, d, n = l[6:].split('|')
            d = tuple(int(x) for x in d.split())
            nq += 1
            ev += 1
            nontriv.add(('Q', name, t))
            if ut:
                want = type_dims.get(ut)
                if want is None:
                    raise vf.Undecided('quantity %s is measured in unknown unit type %r' % (name, ut))
                sym = {tuple(x) for u in bound if u['type'] == ut for x in u['all_dims']}
                if d not in want or d not in sym:
                    h.viols.append(('quantity-dims|%s|%s' % (name, t), {'quantity': name, 'numeric_type': t, 'unit_type': ut,
                                                                          'reported': list(d), 'unit_type_declares': [list(x) for x in want]}))
            elif any(d):
                h.viols.append(('quantity-dims|%s|%s' % (name, t), {'quantity': name, 'numeric_type': t, 'reported': list(d),
                                                                      'what': 'dimensionless quantity reports a non-empty dimension set'}))
    h.stats['quantity_instantiations'] = nq
    # (3) Dimensions printing / ordering / hash: exhaustive boxes on the real class
    src = vf.read(os.path.join(vf.VERIF, 'harness', 'c06_dims.cpp')).decode()
    b, err = ctx.compile('c06_dims', src, opt='-O2')
    if not b:
        raise vf.Undecided('c06_dims does not compile: ' + err[:1500])
    ctx.run(b)
    ev += h.stat('printed_tuples') + h.stat('ordered_pairs') + h.stat('single_dimension_pairs')
    rule = ('configuration axis: every unit (symbol expanded by the independent oracle vs RelatedDimensions) and every quantity '
            'type x 3 numeric types (Dimensions() vs its unit type); value axis: every exponent tuple in [-3,3]^7 for Print/'
            'JSON/XML/YAML against a reference builder, every ordered pair over [-1,1]^7 plus tuples with +-127/-128 entries for '
            'the six operators and hash against lexicographic comparison, set/unordered_set round trip, all 256 values and 65536 '
            'pairs of each single-dimension class. distinct_nontrivial = units + quantity instantiations + printed tuples with at '
            'least two non-zero exponents')
    return vf.finish(ctx, 'exploration', rule, ev, len(nontriv) + h.stat('printed_tuples_two_or_more_nonzero'), True)
