"""C07 - each unit system is coherent: its units combine with factor one."""
import re
from fractions import Fraction as F
from lib import vf, units
from lib.units import uo

LENGTH = {'Metre': F(1), 'Millimetre': F(1, 1000), 'Foot': F('0.3048'), 'Inch': F('0.0254')}
LBF = F('0.45359237') * F('9.80665')
TEMP = {'Kelvin': F(1), 'Rankine': F(5, 9)}
TIME = {'Second': F(1)}


def bases(system_name):
    """SI magnitudes of the base units (T, L, M, I, Th, N, J) of a system, from the words of its
    enumerator name (MetreKilogramSecondKelvin, FootPoundSecondRankine, ...)."""
    w = re.findall(r'[A-Z][a-z]*', system_name)
    L = [LENGTH[x] for x in w if x in LENGTH]
    T = [TIME[x] for x in w if x in TIME]
    Th = [TEMP[x] for x in w if x in TEMP]
    if len(L) != 1 or len(T) != 1 or len(Th) != 1:
        raise vf.Undecided('unit-system oracle cannot read %s' % system_name)
    if 'Kilogram' in w:
        M = F(1)
    elif 'Gram' in w:
        M = F(1, 1000)
    elif 'Pound' in w:
        M = LBF * T[0] ** 2 / L[0]      # pound-force based: slug, slinch
    else:
        raise vf.Undecided('unit-system oracle cannot read the mass unit of %s' % system_name)
    known = {'Kilogram', 'Gram', 'Pound'} | set(LENGTH) | set(TIME) | set(TEMP)
    if [x for x in w if x not in known]:
        raise vf.Undecided('unit-system oracle does not know all words of %s' % system_name)
    return [T[0], L[0], M, F(1), Th[0], F(1), F(1)]


def run(ctx):
    h = ctx.h
    recs = units.dump(ctx)
    bound, oerr = units.bind(recs)
    if oerr:
        raise vf.Undecided('unit oracle does not cover: ' + '; '.join(oerr[:5]))
    systems = {r['number']: r['name'] for r in recs if r['rec'] == 'enumerator' and r['kind'] == 1}
    std_system = min(systems)  # informational only
    by = {(u['type'], u['number']): u for u in bound}
    tables = {r['type']: r for r in recs if r['rec'] == 'tables' and r['kind'] == 0}
    ev = 0
    nontriv = set()
    worst = F(0)
    consistent_of = {}
    for t, tb in sorted(tables.items()):
        for sn, sname in sorted(systems.items()):
            ev += 1
            cu = tb['consistent'].get(str(sn))
            key = 'consistent|%s|%s' % (t, sname)
            if cu == 'throws' or cu is None or (t, cu) not in by:
                h.viols.append((key, {'what': 'no consistent unit (lookup throws or yields an undeclared enumerator)', 'observed': cu}))
                continue
            u = by[(t, cu)]
            consistent_of.setdefault((t, cu), []).append(sn)
            nontriv.add((t, sname, u['name']))
            b = bases(sname)
            d = u['rec']['dims']
            want = F(1)
            for bi, di in zip(b, d):
                want *= bi ** di
            a_meas, b_meas = units.measured(u['rec'])
            sym_ok = any(q.f * uo.PIF ** q.p == want for q in u['readings'])
            rel = abs(a_meas / want - 1)
            worst = max(worst, rel)
            if not sym_ok or rel > F(1, 10 ** 17) or b_meas != 0:
                h.viols.append((key, {'unit_type': t, 'system': sname, 'consistent_unit': u['name'], 'symbol': u['abbr'],
                                      'dimension_exponents': d, 'product_of_base_units_SI': float(want),
                                      'symbol_magnitude_SI': [float(q.value()) for q in u['readings']],
                                      'measured_magnitude_SI': float(a_meas), 'measured_offset': float(b_meas),
                                      'what': 'the consistent unit is not the coherent product of the system\'s base units'}))
            if sname == 'MetreKilogramSecondKelvin' and cu != u['rec']['standard']:
                h.viols.append(('standard|%s' % t, {'consistent_unit_of_standard_system': u['name'], 'standard_number': u['rec']['standard']}))
    # Standard<UnitSystem> must be the SI system (its consistent units are the standard units)
    # reverse lookup over all units
    for u in bound:
        ev += 1
        t, n = u['type'], u['number']
        sy = consistent_of.get((t, n), [])
        want = sy[0] if len(sy) == 1 else None
        got = u['rec']['related_system']
        nontriv.add((t, u['name'], 'reverse'))
        if got != want:
            h.viols.append(('related-system|%s|%s' % (t, u['name']),
                            {'unit': u['name'], 'consistent_unit_of_systems': [systems[s] for s in sy],
                             'RelatedUnitSystem': systems.get(got, got), 'expected': systems.get(want, want)}))
    # call histories: every sequence of three lookups over the enumerators of a unit type returns what single calls return
    import os
    src = vf.read(os.path.join(vf.VERIF, 'harness', 'c07_hist.cpp')).decode()
    ts = [t for t in units.enum_types() if t['kind'] == 0]
    jobs = [{'name': 'c07hist_' + t['name'], 'src': src, 'opt': '-O1', 'link': ('-lquadmath', '-pthread'),
             'flags': ['-DVF_HDR=%s' % t['hdr'], '-DVF_E=%s' % t['cpp'], '-DVF_ENAME="%s"' % t['name']]} for t in ts]
    bins = ctx.build_all(jobs)
    for t, (b, err) in zip(ts, bins):
        if not b:
            raise vf.Undecided('c07_hist for %s does not compile: %s' % (t['name'], err[:1500]))
    ctx.pmap(lambda b: ctx.run(b[0]), bins)
    # the same tables asked from different threads, one after another, in both orders of first use (one process per order)
    ctx.pmap(lambda a: ctx.run(a[0], args=a[1]), [(b[0], m) for b in bins for m in (['threads'], ['threads', 'new-thread-first'], ['fresh'])])
    ev += h.stat('histories')
    h.stats['consistent_units'] = len(tables) * len(systems)
    h.stats['reverse_lookups'] = len(bound)
    h.maxf['worst_relative_deviation_measured_vs_product'] = float(worst)
    ex = next((u for u in bound if u['abbr'] == 'ft·lbf/slug/°R'), None)
    if ex:
        h.samples.append({'system': 'FootPoundSecondRankine', 'unit_type': ex['type'], 'consistent_unit': ex['name'],
                          'symbol': ex['abbr'], 'SI_magnitude': float(ex['reading'].value())})
    rule = ('all (unit system, unit type) pairs: SI magnitude of ConsistentUnit (from its symbol by the independent oracle, exactly; '
            'and as measured by Convert(1) in long double, to 1e-17) equals the product of the system\'s base units raised to '
            'the declared exponents; all units: RelatedUnitSystem(u) == s iff u is the consistent unit of exactly s. Call histories on the real code: all N^3 '
            'sequences of three lookups per unit type (results bound by reference, read after the last call); the same tables from a second and third thread in both orders of first use; '
            'and histories that start in a pristine forked process - every order of first use of the four systems for ConsistentUnit, every ordered pair (a, b, a) as the first calls for the '
            'other lookups - against what a single call returns in a process that made no other lookup. '
            'distinct_nontrivial = distinct (type, system, unit) triples + reverse lookups')
    return vf.finish(ctx, 'exploration', rule, ev, len(nontriv), True)
