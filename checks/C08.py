"""C08 - enumeration tables are total, unambiguous and parse to the unit meant."""
import os
import re
from fractions import Fraction as F
from lib import vf, units
from lib.units import uo

REL = F(1, 10 ** 15)

SYSTEM_WORDS = {'Metre': {'m'}, 'Millimetre': {'mm'}, 'Foot': {'ft'}, 'Inch': {'in'},
                'Kilogram': {'kg'}, 'Gram': {'g'}, 'Pound': {'lbf', 'lb'}, 'Second': {'s'},
                'Kelvin': {'K'}, 'Rankine': {'°R', 'R'}}


def camel_words(name):
    return re.findall(r'[A-Z][a-z]*', name)


def run(ctx):
    recs = units.dump(ctx)
    h = ctx.h
    ev = 0
    nontrivial = set()
    enums = [r for r in recs if r['rec'] == 'enumerator']
    tables = {r['type']: r for r in recs if r['rec'] == 'tables'}
    bound, oerr = units.bind(recs)
    if oerr:
        raise vf.Undecided('unit oracle does not cover: ' + '; '.join(oerr[:5]))
    bykey = {(u['type'], u['number']): u for u in bound}
    # (a) totality per enumerator, observed by running the real lookups in a forked child
    for r in recs:
        if r['rec'] == 'crash':
            ev += 1
            h.viols.append(('total|%s|%s|crash' % (r['type'], r['name']),
                            {'what': 'a table lookup for this enumerator crashed or threw', 'observed': r['what']}))
    seen_abbr = {}
    for r in enums:
        t, n = r['type'], r['name']
        ev += 4
        nontrivial.add((t, n))
        if not r['abbr']:
            h.viols.append(('total|%s|%s|empty-abbreviation' % (t, n), {}))
        if r['streamed'] is not None and r['streamed'] != r['abbr']:
            h.viols.append(('stream|%s|%s' % (t, n), {'streamed': r['streamed'], 'abbreviation': r['abbr']}))
        if r.get('stream_state_difference'):
            h.viols.append(('stream-state|%s|%s' % (t, n), {'abbreviation': r['abbr'], 'difference': r['stream_state_difference'],
                                                            'what': 'streaming the enumerator differs from streaming its abbreviation when the stream has a field width / fill / adjustment'}))
        if r['parse_abbr'] != r['number']:
            h.viols.append(('parse-abbr|%s|%s' % (t, n),
                            {'abbreviation': r['abbr'], 'parsed_to_number': r['parse_abbr'], 'expected_number': r['number']}))
        k = (t, r['abbr'])
        if k in seen_abbr:
            h.viols.append(('duplicate-abbr|%s|%s' % (t, '+'.join(sorted([n, seen_abbr[k]]))), {'abbreviation': r['abbr']}))
        seen_abbr[k] = n
        if r['kind'] == 0:
            # the enumerator converts to and from the standard unit by the magnitude its own abbreviation denotes (coarse 1e-6
            # bound here: totality and the right table row in both directions; the ulp-level statement is C01's)
            u = bykey.get((t, r['number']))
            if u and u['readings']:
                for tn in ('f', 'd', 'ld'):
                    one = uo.parse_hexfloat(r[tn]['one']) - uo.parse_hexfloat(r[tn]['zero'])
                    back = uo.parse_hexfloat(r[tn]['back_one']) - uo.parse_hexfloat(r[tn]['back_zero'])
                    ev += 2
                    ok_to = any(abs(one / q.value() - 1) < F(1, 10 ** 5) for q in u['readings'])
                    ok_from = any(abs(back * q.value() - 1) < F(1, 10 ** 5) for q in u['readings']) if back != 0 else False
                    if not ok_to or not ok_from:
                        h.viols.append(('convert-magnitude|%s|%s|%s|%s' % (t, n, tn, 'to-standard' if not ok_to else 'from-standard'),
                                        {'unit': n, 'abbreviation': r['abbr'], 'numeric_type': tn, 'one_unit_in_standard_units': float(one),
                                         'one_standard_unit_in_units': float(back), 'magnitude_denoted_by_abbreviation': float(u['readings'][0].value())}))
            for tn in ('f', 'd', 'ld'):
                ev += 2
                for fld in ('one', 'back_one'):
                    v = r[tn][fld]
                    if 'nan' in v or 'inf' in v or uo.parse_hexfloat(v) == 0:
                        h.viols.append(('convert|%s|%s|%s|%s' % (t, n, tn, fld), {'observed': v}))
    for t, tb in tables.items():
        ev += 2
        for o in tb['abbr_orphans']:
            h.viols.append(('orphan-abbr-row|%s|%s' % (t, o), {'what': 'abbreviation table row for a value that is not a declared enumerator'}))
        for o in tb['spelling_orphans']:
            h.viols.append(('orphan-spelling|%s|%s' % (t, o), {'what': 'accepted spelling maps to a value that is not a declared enumerator'}))
    # (d) every accepted spelling denotes the magnitude of the enumerator it maps to
    nsp = 0
    worst = F(0)
    for r in enums:
        t, n = r['type'], r['name']
        for sp in r['spellings']:
            nsp += 1
            ev += 1
            nontrivial.add((t, n, sp))
            if r['kind'] == 0:
                u = bykey[(t, r['number'])]
                if not u['readings']:
                    continue  # abbreviation itself has no admissible reading: reported by C06
                try:
                    cands = uo.admissible(t, r['dims'], sp)
                except uo.ParseError as ex:
                    raise vf.Undecided('unit oracle does not cover accepted spelling %r of %s::%s: %s' % (sp, t, n, ex))
                ok = False
                best = None
                for q in cands:
                    for ref in u['readings']:
                        rel = abs(q.value() / ref.value() - 1)
                        if best is None or rel < best:
                            best = rel
                        if rel <= REL:
                            ok = True
                if not ok:
                    allr = []
                    try:
                        allr = [(float(q.value()), q.d) for q in uo.parse(sp)][:4]
                    except uo.ParseError:
                        pass
                    h.viols.append(('spelling|%s|%s->%s' % (t, sp, n),
                                    {'spelling': sp, 'maps_to': n, 'enumerator_abbreviation': r['abbr'],
                                     'enumerator_magnitude_SI': float(u['readings'][0].value()),
                                     'spelling_readings(SI magnitude, exponents T L M I Th N J angle bit)': allr,
                                     'what': 'no reading of the accepted spelling has the dimension set of the type and the magnitude of the enumerator it parses to'}))
            elif r['kind'] == 1:
                words = camel_words(n)
                unknown = [w for w in words if w not in SYSTEM_WORDS]
                if unknown:
                    raise vf.Undecided('unit-system oracle does not know the words %s of %s' % (unknown, n))
                own = set().union(*[SYSTEM_WORDS[w] for w in words])
                toks = [x for x in re.split(r'[·\-\* ,]+', sp) if x]
                bad = [x for x in toks if x not in own]
                others = []
                for r2 in enums:
                    if r2['kind'] == 1 and r2['name'] != n:
                        o2 = set().union(*[SYSTEM_WORDS[w] for w in camel_words(r2['name'])])
                        if toks and all(x in o2 for x in toks):
                            others.append(r2['name'])
                if bad or not toks or others:
                    h.viols.append(('system-spelling|%s->%s' % (sp, n),
                                    {'spelling': sp, 'maps_to': n, 'tokens_not_base_units_of_system': bad,
                                     'also_fits_systems': others}))
            else:
                norm = sp.lower().replace(' ', '').replace('_', '')
                if norm != n.lower():
                    h.viols.append(('model-spelling|%s->%s' % (sp, n), {'spelling': sp, 'maps_to': n}))
    h.stats['enumerators'] = len(enums)
    h.stats['enumeration_types'] = len(tables)
    h.stats['accepted_spellings_checked'] = nsp
    h.samples.append({'type': 'SolidAngle', 'spellings_of_Steradian': next((r['spellings'] for r in enums if r['type'] == 'SolidAngle' and r['name'] == 'Steradian'), None)})
    # (g) negative space, on the real parser, per type
    src = vf.read(os.path.join(vf.VERIF, 'harness', 'c08_neg.cpp')).decode()
    ts = units.enum_types()
    jobs = [{'name': 'c08neg_' + t['name'].replace('::', '_'), 'src': src, 'opt': '-O1',
             'flags': ['-DVF_HDR=%s' % t['hdr'], '-DVF_E=%s' % t['cpp'], '-DVF_ENAME="%s"' % t['name'],
                       '-DVF_KIND=%d' % t['kind']]} for t in ts]
    bins = ctx.build_all(jobs)
    for t, (b, err) in zip(ts, bins):
        if not b:
            raise vf.Undecided('c08_neg for %s does not compile: %s' % (t['name'], err[:1200]))
    ctx.pmap(lambda b: ctx.run(b[0]), bins)
    deep = ''
    if ctx.tier == 'thorough':
        # every string up to the depth that fits the budget, per type, split 8 ways by first byte
        budget = os.environ.get('VERIF_C08_DEEP_BUDGET', '4e9')
        parts = 8
        ctx.pmap(lambda a: ctx.run(a[0], args=['deep', str(a[1]), str(parts), budget]), [(b[0], k) for b in bins for k in range(parts)])
        deep = ('; and EVERY string up to the largest length L with |alphabet|^L <= %s over the bytes of the type\'s own spellings '
                '(L per type in the notes), judged by a trie of the table keys' % budget)
    ev += h.stat('neg_strings')
    rule = ('all enumerators of the %d enumeration types found by compile-time reflection over all int8 values (abbreviation, streaming in five stream states, parse-back, conversion); '
            'every accepted spelling (= key of the spelling table) expanded by the independent symbol oracle; '
            'negative space = every string within edit distance 1 of an accepted spelling over the bytes occurring in '
            'the type\'s spellings plus NUL/0xff/space, case flips, and all strings up to length %s over that alphabet, '
            'compared with a linear memcmp scan of the table keys' + deep + '. distinct_nontrivial = distinct (type, enumerator) and '
            '(type, enumerator, spelling) cases plus distinct negative-space strings that differ from every key') % (
                len(tables), '3' if ctx.tier == 'thorough' else '2')
    return vf.finish(ctx, 'exploration', rule, ev, len(nontrivial) + h.stat('neg_nonkeys'), True,
                     coverage={'configurations': len(enums)})
