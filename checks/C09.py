"""C09 - vectors and tensors implement Euclidean tensor algebra."""
import os
from lib import vf


def run(ctx):
    h = ctx.h
    src = vf.read(os.path.join(vf.VERIF, 'harness', 'c09.cpp')).decode()
    b, err = ctx.compile('c09', src, opt='-O2')
    if not b:
        raise vf.Undecided('c09 does not compile: ' + err[:2500])
    nparts = 16 if ctx.tier == 'thorough' else 5
    runs = [(t, p) for t in ('float', 'double', 'longdouble') for p in range(nparts)]
    ctx.pmap(lambda r: ctx.run(b, [r[0], r[1], nparts]), runs)
    rule = ('every operation x operand-shape combination of PlanarVector/Vector/SymmetricDyad/Dyad (dot, cross, dyadic, +,-,scaling both '
            'sides, /, compound forms, trace, determinant, transpose, cofactors, adjugate, inverse, IsSymmetric, the 8 matrix-vector / '
            'matrix-matrix product overloads, embeddings, and the 22 overloads that take a Direction / PlanarDirection operand, each compared with the same call on the vector the direction stores) x 3 numeric types. Integer grids, demanded exactly against an index-loop '
            'reference in exact integer arithmetic: all pairs of {-3..3}^3 vectors and {-3..3}^2 planar vectors; all 15625 symmetric '
            'dyads over {-2..2}^6; all 19683 dyads over {-1,0,1}^9; SymmetricDyad*SymmetricDyad for all pairs over {-1,0,1}^6; mixed '
            'products against all {0,1}^9 dyads; Dyad*Dyad for all pairs of {0,1}^9 and {-1,0,1}^9 x basis/generic (thorough: all '
            '3.9e8 pairs of {-1,0,1}^9 and unary ops over {-2..2}^9). Inverse on every grid tensor under power-of-two scalings: absent '
            'iff the integer determinant is 0, else the correctly rounded adjugate/determinant and A*inverse = I. Real inputs: generic '
            'tensors, 4 ulp of the sum of |terms| against __float128. distinct_nontrivial = integer-grid + real cases (each a distinct operand tuple x operation)')
    ev = h.stat('integer_cases') + h.stat('real_cases') + h.stat('inverse_cases')
    return vf.finish(ctx, 'exploration', rule, ev, ev - h.stat('inverse_cases'), True)
