"""C10 - directions are unit vectors; magnitude times direction rebuilds the vector."""
import os
from lib import vf, qh


def run(ctx):
    h = ctx.h
    dep = vf.sha(vf.read(os.path.join(vf.VERIF, 'harness', 'c10_common.hpp')))
    src = vf.read(os.path.join(vf.VERIF, 'harness', 'c10_core.cpp')).decode()
    b, err = ctx.compile('c10_core', src + '\n// dep ' + dep + '\n', opt='-O1')
    if not b:
        raise vf.Undecided('c10_core does not compile: ' + err[:2500])
    # PlanarDisplacement::z() cannot be instantiated for any numeric type (dead code, DESIGN R5): the harness probes z() only for 3-D types
    built = qh.build(ctx, 'c10_q.cpp', nchunks=16, opt='-O1', pre='// dep %s\n' % dep, all_headers=True)
    for c, r in built:
        if not r[0]:
            raise vf.Undecided('c10_q does not compile for %s: %s' % (c, r[1][:2500]))
    np_ = 5
    runs = [(b, [t, p, np_]) for t in ('float', 'double', 'longdouble') for p in range(np_)] + [(r[0], []) for c, r in built]
    ctx.pmap(lambda r: ctx.run(r[0], r[1]), runs)
    h.stats['vector_quantity_types'] = len(h.sets.get('vector_quantities', ()))
    rule = ('every construction path of Direction/PlanarDirection (components, array, vector, Set x3, Vector::Direction(), 2-D<->3-D, cross '
            'product) x 3 numeric types x all integer vectors of {-6..6}^D, near-degenerate vectors (1, 2^-k, ..) for every k up to the '
            'mantissa width, each at every %s binade of the range where the squared length neither overflows nor underflows, plus zero '
            'vectors of both signs: length within 4 eps of 1 (norm in __float128), parallel and same sense as the input, bitwise '
            'unchanged by power-of-two rescaling and <= 2 ulp by x3 / x0.7, all paths agree to 2 ulp, zero -> exactly +0. Every '
            'vector-valued quantity type found by shape (2-D and 3-D): Magnitude() has the scalar type of identical Dimensions() and the '
            'Euclidean norm (2 ulp), x()/y()/z() typed and bitwise, Magnitude()*Direction() and Q(magnitude, direction) rebuild q to 4 ulp '
            'of |q|. distinct_nontrivial = directions checked (each a distinct (path, input, binade))') % ('8th' if ctx.tier == 'thorough' else '32nd')
    ev = h.stat('directions') + h.stat('reconstructions') + h.stat('component_accessors') + h.stat('rescaling_checks')
    return vf.finish(ctx, 'exploration', rule, ev, h.stat('directions'), True)
