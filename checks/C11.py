"""C11 - the angle between two vectors is always a real number in [0, pi]."""
import os
from lib import vf, qh


def run(ctx):
    h = ctx.h
    src = vf.read(os.path.join(vf.VERIF, 'harness', 'c11_core.cpp')).decode()
    dep = vf.sha(vf.read(os.path.join(vf.VERIF, 'harness', 'c11_common.hpp')))
    b, err = ctx.compile('c11_core', src + '\n// dep ' + dep + '\n', opt='-O1')
    if not b:
        raise vf.Undecided('c11_core does not compile: ' + err[:1500])
    built = qh.build(ctx, 'c11_q.cpp', nchunks=16, opt='-O1', pre='// dep %s\n' % dep)
    for c, r in built:
        if not r[0]:
            raise vf.Undecided('c11_q does not compile for %s: %s' % (c, r[1][:1500]))
    runs = [(b, [t]) for t in ('float', 'double', 'longdouble')] + [(r[0], []) for c, r in built]
    ctx.pmap(lambda r: ctx.run(r[0], r[1]), runs)
    h.stats['quantity_types_with_angle_ctor'] = len(h.sets.get('quantity_angle_ctors', ()))
    h.stats['quantity_types_with_angle_member'] = len(h.sets.get('quantity_angle_members', ()))
    rule = ('every angle kernel (8 constructor forms, 6 member forms on plain vectors/directions, and Angle(Q,Q) / q.Angle(q) of every '
            'vector-valued quantity type found by probing) x 3 numeric types x pair families: all (a, +-k a) for a in {-4..4}^D, '
            'k in {1,2,3,1/2,2^20,2^-20}; nearly parallel a + 2^-k e_j for all k up to the mantissa width; all pairs of {-2..2}^D; '
            'each under power-of-two rescalings of either argument. Oracle: not NaN, within [0, pi], symmetric within the tolerance, bitwise '
            'invariant under power-of-two rescaling, |theta - atan2(|a x b|, a.b)| <= 1e-3/1e-7/1e-9 (float/double/long double) '
            'with the reference in __float128. distinct_nontrivial = evaluations in the parallel/antiparallel/nearly-parallel families')
    return vf.finish(ctx, 'exploration', rule, h.stat('angles'), h.stat('nontrivial_angles'), True,
                     coverage={'kernel_instances': h.stat('kernel_instances')})
