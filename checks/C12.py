"""C12 - an elastic isotropic solid is the same material from any modulus pair."""
import os
from lib import vf


def run(ctx):
    h = ctx.h
    src = vf.read(os.path.join(vf.VERIF, 'harness', 'c12.cpp')).decode()
    b, err = ctx.compile('c12', src, opt='-O1')
    if not b:
        raise vf.Undecided('c12 does not compile: ' + err[:2500])
    ctx.pmap(lambda t: ctx.run(b, [t]), ['float', 'double', 'longdouble'])
    rule = ('material grid mu = m*2^e (e in {-30,-8,0,11,37}, +-15 for float) x nu in {0, 2^-40, 2^-20, 0.01, 0.1, 0.25, 0.3, 0.4, 0.45, 0.49, '
            '0.499, 0.49999, 1/2-2^-20} x 3 model precisions: (a) 7 accessors vs the identities of isotropic elasticity on the stored '
            '(mu, lambda), 4 ulp; (b) ALL 20 constructors rebuilt from the pair the model itself reports, compared with the exact '
            '__float128 image of that pair and with the original material under the perturbation oracle R3 (largest change of the exact '
            'result over the {-4..4}^2 ulp lattice of the pair, floor 4 ulp of the material scale); non-finite results are violations; '
            '(c) Stress = 2 mu eps + lambda tr(eps) I on basis/pair/generic strain tensors, 4 ulp of the sum of |terms|; Strain inverts '
            'Stress (R3 on the stress components); strain-rate arguments ignored bitwise, rate stubs exactly +0; (d) all 9 (model '
            'precision x argument precision) combinations; (e) every call repeated through const ConstitutiveModel& and compared bitwise. '
            'distinct_nontrivial = constructor checks + stress evaluations')
    ev = h.stat('accessor_checks') + h.stat('constructor_checks') + h.stat('stress_evaluations') + h.stat('inverse_evaluations') + h.stat('virtual_comparisons')
    return vf.finish(ctx, 'exploration', rule, ev, h.stat('constructor_checks') + h.stat('stress_evaluations'), True)
