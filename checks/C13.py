"""C13 - Newtonian fluid models: linear viscous stress and its exact inverse."""
import os
from lib import vf


def run(ctx):
    h = ctx.h
    src = vf.read(os.path.join(vf.VERIF, 'harness', 'c13.cpp')).decode()
    b, err = ctx.compile('c13', src, opt='-O1')
    if not b:
        raise vf.Undecided('c13 does not compile: ' + err[:2500])
    ctx.pmap(lambda t: ctx.run(b, [t]), ['float', 'double', 'longdouble'])
    rule = ('both fluid classes x 3 model precisions x 3 argument precisions x viscosity grid mu = m*2^e (e in {-30,-8,0,11,37}; +-15 for '
            'float), bulk/shear ratio in {0, 0.001, 0.6, 1, 250} x basis / pair / generic symmetric tensors: stress vs 2 mu D + mu_b tr(D) I '
            '(4 ulp of the sum of |terms|, __float128 reference); StrainRate(Stress(D)) = D under the perturbation oracle R3; strain '
            'arguments ignored bitwise; Stress(strain) and Strain(stress) exactly +0; every call repeated through const '
            'ConstitutiveModel& (bitwise); homogeneity under -1, 2, 1/2 bitwise and additivity for coefficients {1,-1,3}; '
            'CompressibleNewtonianFluid(mu) identical to (mu, +0) on all outputs. distinct_nontrivial = stress evaluations + inverse evaluations')
    ev = h.stat('stress_evaluations') + h.stat('inverse_evaluations') + h.stat('virtual_comparisons') + h.stat('linearity_checks') + h.stat('viscosity_only_checks')
    return vf.finish(ctx, 'exploration', rule, ev, h.stat('stress_evaluations') + h.stat('inverse_evaluations'), True)
