"""C14 - comparison is a total order on stored values; equal objects hash equally."""
import os
from lib import vf, qh


def run(ctx):
    h = ctx.h
    dep = vf.sha(vf.read(os.path.join(vf.VERIF, 'harness', 'c14_common.hpp')))
    src = vf.read(os.path.join(vf.VERIF, 'harness', 'c14_core.cpp')).decode()
    b, err = ctx.compile('c14_core', src + '\n// dep ' + dep + '\n', opt='-O2')
    if not b:
        raise vf.Undecided('c14_core does not compile: ' + err[:2000])
    built = qh.build(ctx, 'c14_q.cpp', nchunks=16, opt='-O1', pre='// dep %s\n' % dep)
    for c, r in built:
        if not r[0]:
            raise vf.Undecided('c14_q does not compile for %s: %s' % (c, r[1][:2000]))
    thorough = ctx.tier == 'thorough'
    np_core = 8 if thorough else 2
    np_q = 4 if thorough else 1
    runs = [(b, [t, p, np_core]) for t in ('float', 'double', 'longdouble') for p in range(np_core)]
    runs += [(r[0], [p, np_q]) for c, r in built for p in range(np_q)]
    ctx.pmap(lambda r: ctx.run(r[0], r[1]), runs)
    # Dimensions: the exhaustive ordering sweep of C06's harness is part of this property as well
    srcd = vf.read(os.path.join(vf.VERIF, 'harness', 'c06_dims.cpp')).decode()
    bd, err = ctx.compile('c06_dims', srcd, opt='-O2')
    if not bd:
        raise vf.Undecided('c06_dims does not compile: ' + err[:1500])
    ctx.run(bd)
    rule = ('every quantity type (discovered from include/PhQ), the 4 vector/tensor classes, Dimensions and the 3 model classes x 3 '
            'numeric types; value set S = A^n with A = {-inf,-max,-1,-min,-denorm,-0,+0,...,+inf} (n=1), {-inf,-1,-0,+0,1,+inf} (n<=3), '
            '{-1,-0,+0,1} (n=6), {0,1} (n=9; thorough {-1,0,1}) plus a tie-prefix family with signed zeros/infinities in every slot; '
            'ALL ordered pairs of S: the six operators equal lexicographic comparison of the stored components, == implies equal '
            'std::hash, std::set/unordered_set round trip with size = number of equivalence classes. Agreement with a total order on '
            'all pairs implies irreflexivity, asymmetry, transitivity and totality on S. distinct_nontrivial = ordered pairs whose '
            'leading components tie (multi-component types)')
    ev = h.stat('ordered_pairs')
    return vf.finish(ctx, 'exploration', rule, ev, h.stat('pairs_with_tie_in_leading_component'), True,
                     coverage={'type_instances': h.stat('type_instances')})
