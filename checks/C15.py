"""C15 - printing is lossless and canonical; serialisations are well-formed."""
import os
from lib import vf, qh, tsan


def run(ctx):
    h = ctx.h
    thorough = ctx.tier == 'thorough'
    src = vf.read(os.path.join(vf.VERIF, 'harness', 'c15_num.cpp')).decode()
    b, err = ctx.compile('c15_num', src, opt='-O2')
    if not b:
        raise vf.Undecided('c15_num does not compile: ' + err[:2500])
    built = qh.build(ctx, 'c15_q.cpp', nchunks=24, opt='-O0')
    for c, r in built:
        if not r[0]:
            raise vf.Undecided('c15_q does not compile for %s: %s' % (c, r[1][:2500]))
    srcq = vf.read(os.path.join(vf.VERIF, 'harness', 'c15_q.cpp')).decode()
    bc, err = ctx.compile('c15_core', '#include <PhQ/Dyad.hpp>\n#include <PhQ/SymmetricDyad.hpp>\n#include <PhQ/Vector.hpp>\n#include <PhQ/PlanarVector.hpp>\n#define VF_C15_CORE 1\n' + srcq, opt='-O0')
    if not bc:
        raise vf.Undecided('c15 core does not compile: ' + err[:2500])
    np_f = 16 if thorough else 4
    np_o = 8 if thorough else 3
    runs = [(b, ['float', p, np_f]) for p in range(np_f)]
    runs += [(b, [t, p, np_o]) for t in ('double', 'longdouble') for p in range(np_o)]
    runs += [(r[0], []) for c, r in built] + [(bc, [])]
    ctx.pmap(lambda r: ctx.run(r[0], r[1]), runs)
    tsan.run(ctx, 'print', 'concurrent-printing')
    rule = ('numbers: %s; for double and long double every notation boundary {0.001 .. 10000} with %d floating-point neighbours on each '
            'side, every power of two and of ten in range with neighbours, min/max normal and %s stratified bit patterns. Each: exactly '
            'max_digits10+1 significant digits, fixed iff 0.001 <= |x| < 10000 (decided exactly in __float128), "0" for zeros, '
            'ParseNumber<T>(Print(x)) bit-identical. Composite: every quantity type and the 4 vector/tensor classes x 3 numeric types x '
            'slot-distinct values spread over all notation intervals, standard forms and every unit: number texts of Print/JSON/XML/YAML '
            'equal PhQ::Print(c_i) in declared order, unit abbreviation present, JSON accepted by an independent recursive-descent '
            'parser with value/unit fields and x..zz keys in order, XML tags / YAML braces balanced, operator<< == Print() in six stream states (fresh; field width with right/left/internal adjustment and fill; '
            'leftover scientific/showpos/uppercase/hexfloat flags and precision; two objects per statement) with the stream left in the same state. '
            'Plus one free-running ThreadSanitizer pass: printing and serialising from two threads at once gives the single-threaded strings and no data race. '
            'distinct_nontrivial = distinct finite normal numbers printed and parsed back') % (
                'ALL 2^32 float bit patterns' if thorough else 'every 4093rd float bit pattern', 4096 if thorough else 1024,
                '2^22' if thorough else '2^16')
    ev = h.stat('numbers') + h.stat('serialisations')
    return vf.finish(ctx, 'exploration', rule, ev, h.stat('nontrivial_numbers'), True,
                     coverage={'float_bit_patterns_exhaustive': thorough})
