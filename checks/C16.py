"""C16 - changing floating-point precision casts each component and nothing else."""
import os
from lib import vf, qh


def run(ctx):
    h = ctx.h
    built = qh.build(ctx, 'c16_q.cpp', nchunks=16, opt='-O0')
    for c, r in built:
        if not r[0]:
            raise vf.Undecided('c16_q does not compile for %s: %s' % (c, r[1][:2500]))
    srcq = vf.read(os.path.join(vf.VERIF, 'harness', 'c16_q.cpp')).decode()
    bc, err = ctx.compile('c16_core', '#include <PhQ/Dyad.hpp>\n#include <PhQ/SymmetricDyad.hpp>\n#include <PhQ/Vector.hpp>\n#include <PhQ/PlanarVector.hpp>\n#define VF_C16_CORE 1\n' + srcq, opt='-O0')
    if not bc:
        raise vf.Undecided('c16 core does not compile: ' + err[:2500])
    ctx.pmap(lambda b: ctx.run(b), [r[0] for c, r in built] + [bc])
    nm = len(h.sets.get('converting_members', ()))
    h.stats['converting_members_found'] = nm
    rule = ('every quantity type and the 4 vector/tensor classes x all 6 ordered pairs of distinct numeric types x {converting '
            'construction, converting assignment into a target holding other values, assignment twice} (presence probed): slot i of the '
            'result is bitwise static_cast<T2>(slot i of the source) for slot-distinct values including ones not representable in the '
            'narrower type, +-0, 1e30, 2^-100; widening then narrowing is the identity (construction and assignment); directions: within '
            '2 ulp (coarser type) of the plain cast and of unit length. distinct_nontrivial = conversions checked')
    ev = h.stat('conversions') + h.stat('round_trips')
    return vf.finish(ctx, 'exploration', rule, ev, h.stat('conversions'), True, coverage={'types': h.stat('types')})
