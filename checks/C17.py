"""C17 - quantities are bare numbers in memory."""
import os
from lib import vf, qh


def run(ctx):
    h = ctx.h
    built = qh.build(ctx, 'c17_q.cpp', nchunks=16, opt='-O1')
    for c, r in built:
        if not r[0]:
            raise vf.Undecided('c17_q does not compile for %s: %s' % (c, r[1][:2500]))
    ctx.pmap(lambda b: ctx.run(b), [r[0] for c, r in built])
    cov = {
        'states': h.stat('states'), 'transitions': h.stat('transitions'),
        'traces_validated_against_impl': h.stat('transitions'),
        'explanation': 'explicit-state breadth-first search with state hashing over operation histories, executed directly on the real '
                       'objects: every transition rebuilds a fresh object in the source state, applies one mutator/accessor operation of the '
                       'real class and compares Value() and the raw memory image with the plain-array reference model, so every explored '
                       'transition is also a validated implementation trace',
    }
    rule = ('all quantity types x 3 numeric types: 6 static layout facts each (sizeof = n numbers, alignof, trivially copyable, standard '
            'layout, not polymorphic, trivially destructible), Zero() all +0; BFS with state hashing from an initial state over the operation '
            'menu {SetValue(v_k), MutableValue() = v_k, EVERY one-number mutator of the stored vector/tensor through MutableValue() (each Mutable_ab() and Set_ab incl. the mirrored names of a symmetric tensor, each slot of the mutable array: 6/9/24/27 writers), '
            'its whole-value setters in scalar and array form, the same setters fed with references into the object itself in permuted order (in-place transpose / cyclic shift), copy-assign, '
            'memcpy-out/patch slot/memcpy-in as array of numbers, array-of-4 viewed as numbers} x values {nextafter(1.5), -0, -(1/3)*2^40 in full precision of the numeric type}: to closure '
            '(depth 8) for 1-3 components, depth %d for 6 and 9 components; reference model = std::array of numbers; oracle after every '
            'transition: Value() and raw bytes equal the model (value + sign bit)') % (4 if ctx.tier == 'thorough' else 3)
    ev = h.stat('static_facts') + h.stat('zero_checks') + h.stat('transitions')
    return vf.finish(ctx, 'model_checking', rule, ev, h.stat('states'), True, coverage=cov)
