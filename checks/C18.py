"""C18 - named physical definitions evaluate their textbook formulas."""
import os
from lib import vf, rel


def run(ctx):
    h = ctx.h
    qs = vf.quantity_names()
    inc = ''.join('#include <PhQ/%s.hpp>\n' % n for n in qs)
    dep = vf.sha(vf.read(os.path.join(vf.VERIF, 'harness', 'rel_check.hpp')))
    src = inc + '// dep %s\n' % dep + vf.read(os.path.join(vf.VERIF, 'harness', 'c18.cpp')).decode()
    # one TU per numeric type keeps the compile parallel
    jobs = [{'name': 'c18_' + t, 'src': src + '\n// instantiate: %s\n' % t, 'opt': '-O0'} for t in ('float', 'double', 'longdouble')]
    res = ctx.build_all(jobs)
    for j, r in zip(jobs, res):
        if not r[0]:
            raise vf.Undecided('c18 does not compile: ' + r[1][:3000])
    ctx.pmap(lambda x: ctx.run(x[0][0], [x[1]]), list(zip(res, ('float', 'double', 'longdouble'))))
    # the evaluation-time axis: static const numbers initialised from literals (compiler-evaluated if the relation is constexpr) vs run time
    scsrc = vf.read(os.path.join(vf.VERIF, 'harness', 'c18_static_const.cpp')).decode()
    for opt in ('-O0', '-O2'):
        sb, serr = ctx.compile('c18_static_const' + opt, scsrc, opt=opt)
        if not sb:
            raise vf.Undecided('c18_static_const does not compile: ' + serr[:2500])
        ctx.run(sb)
    # member functions that are a second spelling of a constructor (ReynoldsNumber::Speed(mu, rho, L), Stress::Traction(n), ...):
    # tied to the constructor form, which the table above checks against the textbook formula
    R, items, tjobs, tres = rel.build(ctx, 6, per_tu=20)
    for j, r in zip(tjobs, tres):
        if not r[0]:
            raise vf.Undecided('member-twin harness does not compile: ' + r[1][:3000])
    ctx.pmap(lambda x: ctx.run(x[0], [x[1]]), [(r[0], t) for r in tres for t in ('float', 'double', 'longdouble')])
    h.stats['member_twin_items'] = len(items)
    present = sorted(h.sets.get('rows_present', ()))
    absent = sorted(h.sets.get('rows_absent', ()))
    h.stats['rows_present'] = len(present)
    h.stats['rows_absent'] = len(absent)
    if absent:
        h.notes.append('definition rows whose relation does not exist in this tree (skipped): %s' % absent)
    rule = ('a fixed table of %d textbook definitions (dynamic pressure and its kinematic form with inverses, total = static + dynamic, '
            'sound speed in three forms, Mach, Reynolds (3- and 4-argument forms and inverses), Prandtl, gamma = cp/cv and R = cp - cv in '
            'extensive and specific forms, thermal diffusivity, kinematic viscosity, period = 1/frequency, thermal strains, -p I, and on '
            'asymmetric tensors: strain and strain rate as symmetric parts, von Mises stress, traction sigma.n in 3-D and in the plane), '
            'each guarded by a compile-time existence probe, x 3 numeric types x a magnitude grid 2^e*m over 80 binades (all pairs for 1-2 '
            'arguments, full sweeps of every argument with co-prime strides on the others for 3-4 arguments; all arguments pairwise '
            'different; heat-capacity ratios both ordinary and next to one). Reference in __float128 with the textbook constants; accepted error = 8 ulp of the result (the inputs are exact numbers: '
            'no allowance for their conditioning). Plus every discovered member function that has a constructor twin with the same operand types (%d today), compared with that constructor under the same kind of tolerance. '
            'Nine square-root / power definitions are also evaluated as static const numbers initialised from literals (-O0 and -O2) and compared bitwise with the run-time value. distinct_nontrivial = definitions x numeric types checked') % (len(present) + len(absent), len(items))
    return vf.finish(ctx, 'exploration', rule, h.stat('evaluations') + h.stat('member_twin_evaluations'), max(2, h.stat('definitions_checked') + h.stat('member_twins_checked')), True)
