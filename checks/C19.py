"""C19 - quantities work during static initialisation.

Build-and-run enumeration over (compiler, optimisation level, enumeration type, arrangement of
translation units, link order): a namespace-scope object defined after the includes observes every
table-backed facility of one unit type for every enumerator; main() repeats the observation; the
two must be identical and the process must exit normally. A Spin model of the C++ dynamic
initialisation rules generalises the observations (see harness/initorder/init_order.pml)."""
import itertools
import os
import re
import subprocess
import time
from lib import vf, units, qh

COMPILERS = [('g++', 'g++'), ('clang++', 'clang++')]
OPTS = ['-O0', '-O2']
IO = os.path.join(vf.VERIF, 'harness', 'initorder')

TU_A = '''#include <iostream>
// objects with static storage duration defined after the includes, of every kind of namespace-scope variable
static const std::string vf_pre = obs::observe();                    // ordinary variable (ordered initialisation)
inline const std::string vf_pre_inline = obs::observe();              // inline variable (partially ordered)
template <class X>
const std::string vf_pre_tmpl = obs::observe();                       // variable template, implicitly instantiated (unordered)
template <class X>
struct VfHolder {
  static const std::string value;
};
template <class X>
const std::string VfHolder<X>::value = obs::observe();                // static data member of a class template (unordered)
extern "C" double vf_other() __attribute__((weak));                   // an ordinary use in another translation unit, if linked
extern "C" const std::string* vf_pre2_get() __attribute__((weak));    // a user object in a third translation unit, if linked
int main() {
  const std::string in = obs::observe();
  const std::string* objs[5] = {&vf_pre, &vf_pre_inline, &vf_pre_tmpl<int>, &VfHolder<int>::value, vf_pre2_get ? vf_pre2_get() : nullptr};
  const char* names[5] = {"ordinary", "inline", "variable-template", "class-template-static-member", "object-in-third-TU"};
  int bad = 0;
  std::cout << "MAIN " << obs::digest(in) << " " << in.size() << (vf_other ? " other=" : " ") << (vf_other ? vf_other() : 0.0) << "\\n";
  for (int i = 0; i < 5; i++) {
    if (!objs[i]) continue;
    if (*objs[i] != in) {
      const std::string& pre = *objs[i];
      size_t k = 0;
      while (k < pre.size() && k < in.size() && pre[k] == in[k]) k++;
      std::cout << "DIFF " << names[i] << " at " << k << ": pre=[" << pre.substr(k > 20 ? k - 20 : 0, 80) << "] main=[" << in.substr(k > 20 ? k - 20 : 0, 80) << "]\\n";
      bad++;
    }
  }
  if (bad) return 3;
  std::cout << "SAME\\n";
  return 0;
}
'''
TU_B = '''extern "C" double vf_other() {  // an ordinary use of the same facilities in another translation unit
  return %(expr)s;
}
'''
TU_C = '''// a third translation unit with its own static object, in a TU that includes a different quantity header first
static const std::string vf_pre2 = obs::observe();
extern "C" const std::string* vf_pre2_get() { return &vf_pre2; }
'''


def quantity_map(ctx):
    """unit type -> (quantity name, components), from the compiler (C06's quantity harness)"""
    built = qh.build(ctx, 'c06_q.cpp', nchunks=16, opt='-O0')
    m = {}
    for c, r in built:
        if not r[0]:
            raise vf.Undecided('c06_q does not compile: ' + r[1][:1500])
    for o in ctx.pmap(lambda cr: ctx.run(cr[1][0], feed=False), built):
        for l in o.splitlines():
            if l.startswith('QDIMS '):
                name, t, ut, d, n = l[6:].split('|')
                if ut and t == 'double' and name not in ('Direction', 'PlanarDirection'):
                    # prefer the quantity with the fewest components, then the one named like the unit type
                    cur = m.get(ut)
                    if cur is None or int(n) < cur[1] or (int(n) == cur[1] and name == ut):
                        m[ut] = (name, int(n))
    return m


def header_block(t, q, first_other=None):
    s = ''
    if first_other:
        s += '#include <PhQ/%s.hpp>\n' % first_other
    if t['kind'] == 0 and q:
        s += '#include <PhQ/%s.hpp>\n' % q[0]
    s += '#include %s\n' % t['hdr']
    s += '#define VF_E %s\n#define VF_KIND %d\n' % (t['cpp'], t['kind'])
    if t['kind'] == 0 and q:
        s += '#define VF_Q PhQ::%s\n#define VF_NCOMP %d\n' % q
    s += '#include "observe.hpp"\n'
    return s


def run(ctx):
    h = ctx.h
    thorough = ctx.tier == 'thorough'
    recs = units.dump(ctx)
    ts = units.enum_types()
    # constitutive model OBJECTS at namespace scope (their own entry: clang 14 cannot compile the model headers of this tree at all,
    # which would otherwise take the model-type enumeration out of the clang runs as well)
    ts = ts + [{'name': 'ConstitutiveModel objects', 'hdr': '<PhQ/ConstitutiveModel/ElasticIsotropicSolid.hpp>\n#include <PhQ/ConstitutiveModel/IncompressibleNewtonianFluid.hpp>\n#include <PhQ/ConstitutiveModel/CompressibleNewtonianFluid.hpp>',
                'cpp': 'PhQ::ConstitutiveModel::Type', 'kind': 3}]
    qmap = quantity_map(ctx)
    nonstd = {}
    for r in recs:
        if r['rec'] == 'enumerator' and r['kind'] == 0 and r['number'] != r['standard']:
            nonstd.setdefault(r['type'], '%s::%s' % ('PhQ::Unit::' + r['type'], r['name']))
    wd = ctx.path('c19')
    os.makedirs(wd, exist_ok=True)
    flags = ['-std=c++17', '-w', '-I' + vf.INC, '-I' + os.path.join(vf.VERIF, 'engine'), '-I' + IO]
    dep = vf.sha(vf.read(os.path.join(IO, 'observe.hpp')), vf.read(os.path.join(vf.VERIF, 'engine', 'reflect.hpp')))[:10]

    # ---- the set of programs: TUs and the link orders of each arrangement
    rep = ('Length', 'Temperature', 'MemoryRate', 'Pressure', 'Angle', 'SpecificHeatCapacity', 'Force')
    programs = []
    for t in ts:
        q = qmap.get(t['name']) if t['kind'] == 0 else None
        a = header_block(t, q) + TU_A
        if t['kind'] == 0 and nonstd.get(t['name']):
            expr = 'PhQ::Convert(2.0, %s, PhQ::Standard<%s>) + (double)PhQ::Abbreviation(%s).size()' % (nonstd[t['name']], t['cpp'], nonstd[t['name']])
        else:
            expr = '(double)PhQ::Abbreviation(PhQ::Standard<%s>).size()' % t['cpp'] if t['kind'] == 1 else '1.0'
        hb = '#include %s\n' % t['hdr'] + ('#include <PhQ/%s.hpp>\n' % q[0] if q else '')
        b = hb + '#include <string>\n' + TU_B % {'expr': expr}
        tus = {'a': a, 'b': b}
        orders = {'one-TU': [['a']], 'two-TUs': [['a', 'b'], ['b', 'a']]}
        if t['kind'] == 0 and (thorough or t['name'] in rep):
            other = 'Mass' if t['name'] != 'Mass' else 'Length'
            tus['c'] = header_block(t, q, first_other=other) + TU_C
            orders['three-TUs-other-header-first'] = ([list(p) for p in itertools.permutations(['a', 'b', 'c'])] if thorough
                                                      else [['a', 'b', 'c'], ['c', 'b', 'a'], ['b', 'c', 'a']])
        for arr, os_ in orders.items():
            programs.append({'type': t['name'], 'arr': arr, 'tus': {k: tus[k] for k in sorted(set(x for o in os_ for x in o))}, 'orders': os_})

    # ---- compile every TU once per (compiler, opt), link every order, run
    compile_jobs = []
    for pi, p in enumerate(programs):
        for cn, cx in COMPILERS:
            for opt in OPTS:
                for tn, src in p['tus'].items():
                    key = vf.sha(src, cx, opt, dep, ctx.tree)[:16]
                    compile_jobs.append((pi, cn, cx, opt, tn, src, os.path.join(wd, 'tu_%s' % key)))

    def compile_one(j):
        pi, cn, cx, opt, tn, src, base = j
        obj = base + '.o'
        if os.path.exists(obj):
            return (j, True, '')
        with open(base + '.cpp', 'w') as f:
            f.write(src)
        r = subprocess.run([cx] + flags + [opt, '-c', base + '.cpp', '-o', obj + '.tmp'], stdout=subprocess.PIPE, stderr=subprocess.PIPE, text=True, errors='replace')
        if r.returncode == 0:
            os.replace(obj + '.tmp', obj)
            return (j, True, '')
        return (j, False, r.stderr[-1500:])

    uniq = {}
    for j in compile_jobs:
        uniq.setdefault(j[6], j)          # the same TU text is shared by several arrangements
    by_base = {j[6]: (ok, err) for j, ok, err in ctx.pmap(compile_one, list(uniq.values()))}
    objs = {}
    compile_fail = {}
    for (pi, cn, cx, opt, tn, src, base) in compile_jobs:
        ok, err = by_base[base]
        if ok:
            objs[(pi, cn, opt, tn)] = base + '.o'
        else:
            compile_fail.setdefault((pi, cn, opt), err)
    # a program that the library's own supported compiler cannot even build is not an execution; g++ must build everything
    for (pi, cn, opt), err in compile_fail.items():
        if cn == 'g++':
            raise vf.Undecided('static-initialisation program for %s does not compile with g++: %s' % (programs[pi]['type'], err))
        # the statement names both compilers: a translation unit that g++ builds and clang++ rejects is a configuration in which
        # nothing can be constructed before main() at all (one finding per enumeration type / facility, not per arrangement)
        first = next((l for l in err.splitlines() if 'error' in l), err.splitlines()[0] if err else '')
        first = re.sub(r'^\S*/include/', 'include/', first.strip())
        key = 'static-init|%s|%s|does-not-compile' % (cn, programs[pi]['type'])
        if not any(k == key for k, _ in h.viols):
            h.viols.append((key, {'compiler': cn, 'enumeration_type': programs[pi]['type'], 'outcome': 'translation unit rejected', 'first_error': first[:300],
                                  'what': 'a translation unit that includes the library headers and defines objects with static storage duration is accepted by g++ and rejected by clang++'}))

    link_jobs = []
    for pi, p in enumerate(programs):
        for cn, cx in COMPILERS:
            for opt in OPTS:
                if (pi, cn, opt) in compile_fail:
                    continue
                for order in p['orders']:
                    link_jobs.append((pi, cn, cx, opt, order))

    def link_run(j):
        pi, cn, cx, opt, order = j
        p = programs[pi]
        exe = os.path.join(wd, 'prog_%s' % vf.sha(repr((pi, cn, opt, order)), dep, ctx.tree, *[p['tus'][t] for t in order])[:16])
        if not os.path.exists(exe):
            r = subprocess.run([cx, opt] + [objs[(pi, cn, opt, t)] for t in order] + ['-o', exe + '.tmp'], stdout=subprocess.PIPE, stderr=subprocess.PIPE, text=True, errors='replace')
            if r.returncode != 0:
                return (j, 'link-failed', r.stderr[-600:], None)
            os.replace(exe + '.tmp', exe)
        try:
            r = subprocess.run([exe], stdout=subprocess.PIPE, stderr=subprocess.PIPE, text=True, errors='replace', timeout=120)
        except subprocess.TimeoutExpired:
            return (j, 'timeout', '', exe)
        if r.returncode == 0 and 'SAME' in r.stdout:
            return (j, 'ok', r.stdout.strip()[:200], exe)
        if r.returncode < 0:
            return (j, 'signal %d' % -r.returncode, (r.stderr or r.stdout)[-300:], exe)
        return (j, 'exit %d' % r.returncode, (r.stdout + r.stderr)[-600:], exe)

    t0 = time.time()
    results = ctx.pmap(link_run, link_jobs)
    executions = 0
    outcomes = {}
    for (pi, cn, cx, opt, order), status, detail, exe in results:
        p = programs[pi]
        executions += 1
        outcomes[status.split()[0]] = outcomes.get(status.split()[0], 0) + 1
        if status != 'ok':
            key = 'static-init|%s|%s|%s|%s' % (cn, p['type'], p['arr'], '>'.join(order))
            h.viols.append((key + '|' + opt, {
                'compiler': cn, 'optimisation': opt, 'enumeration_type': p['type'], 'arrangement': p['arr'], 'link_order': order,
                'outcome': status, 'output': detail, 'program': exe,
                'what': 'an object with static storage duration defined after the includes does not observe the same results before main() as the same expressions inside main()',
                '_cmd': None}))
    h.stats['programs'] = len(programs)
    h.stats['executions'] = executions
    h.stats['translation_units_compiled'] = len(uniq)
    for k, v in outcomes.items():
        h.stats['outcome_' + k] = v
    h.samples.append({'program': 'Length, one TU', 'object': 'static const std::string vf_pre = obs::observe();',
                      'observes': 'for all 13 enumerators: Abbreviation, operator<<, ParseEnumeration, RelatedUnitSystem, ConsistentUnit, Convert/ConvertInPlace in 3 numeric types, '
                                  'Length(v,u), Value(u), Print/JSON/XML/YAML(u), comparisons, Create<u>, StaticValue<u>, Dimensions().Print()'})
    # ---- Spin model of the initialisation-order rules, bound to the observations
    model = spin_model(ctx, results, programs)
    cov = {'states': model['states'], 'transitions': model['transitions'], 'traces_validated_against_impl': model['validated'],
           'executions': executions,
           'explanation': 'the verdict comes from the real toolchains: every (compiler, optimisation level, enumeration type, arrangement, link order) '
                          'program was built and executed; the Spin model of [basic.start.dynamic] is checked exhaustively and every observed execution '
                          'was replayed as a model trace'}
    cov.update({'model_' + k: v for k, v in model.items() if k not in ('states', 'transitions', 'validated')})
    rule = ('{g++, clang++} x {-O0, -O2} x all %d enumeration types (37 unit types with a quantity measured in them, UnitSystem, model type): one '
            'translation unit; two translation units (user objects in A, an ordinary use in B) in both link orders; for %s unit types three '
            'translation units (another user object in a TU that includes a different quantity header first) in %s link orders. In each '
            'program four kinds of namespace-scope objects defined after the includes (ordinary, inline, variable template, static member of '
            'a class template) are initialised from obs::observe(), which exercises every table-backed facility for every enumerator of the '
            'type in three numeric types; main() recomputes it: the program must link, exit with status 0 and all strings must be identical. '
            'distinct_nontrivial = executions') % (len(ts), 'all' if thorough else '7 representative', 'all 6' if thorough else '3')
    return vf.finish(ctx, 'model_checking', rule, executions, executions, True, coverage=cov, replay_fn=replay)


def replay(key, det):
    exe = det.get('program')
    if not exe or not os.path.exists(exe):
        return True
    try:
        r = subprocess.run([exe], stdout=subprocess.PIPE, stderr=subprocess.PIPE, text=True, errors='replace', timeout=120)
    except subprocess.TimeoutExpired:
        return True
    return not (r.returncode == 0 and 'SAME' in r.stdout)


def spin_model(ctx, results, programs):
    """Checks harness/initorder/init_order.pml exhaustively and replays every observed execution
    against it (trace validation). The model is secondary: it never produces a VIOLATION."""
    pml = os.path.join(IO, 'init_order.pml')
    out = {'states': 1, 'transitions': 1, 'validated': 0, 'status': 'model not run'}
    if not os.path.exists(pml):
        return out
    wd = ctx.path('c19_spin')
    os.makedirs(wd, exist_ok=True)

    # class of the conversion dispatch table, read off an object file: a guard variable means dynamic initialisation;
    # a partial specialisation that is instantiated implicitly is unordered, an explicit specialisation partially ordered
    probe = os.path.join(wd, 'probe.cpp')
    with open(probe, 'w') as f:
        f.write('#include <PhQ/Length.hpp>\ndouble f(double x) { return PhQ::Convert(x, PhQ::Unit::Length::Foot, PhQ::Unit::Length::Inch); }\n')
    r = subprocess.run(['g++', '-std=c++17', '-w', '-O0', '-I' + vf.INC, '-c', probe, '-o', probe + '.o'], stdout=subprocess.PIPE, stderr=subprocess.PIPE, text=True)
    cls = 0
    if r.returncode == 0:
        nm = subprocess.run(['nm', '-C', probe + '.o'], stdout=subprocess.PIPE, text=True).stdout
        if 'guard variable for PhQ::Internal::MapOfConversions' in nm:
            txt = vf.read(os.path.join(vf.INC, 'PhQ', 'Unit', 'Length.hpp')).decode()
            import re as _re
            cls = 2 if _re.search(r'template <typename NumericType>\s*inline const[^;{]*MapOfConversions(?:To|From)Standard<Unit::Length, NumericType>', txt) else 1
    out['dispatch_table_class'] = {0: 'constant-initialised', 1: 'partially ordered', 2: 'unordered (implicitly instantiated)'}[cls]
    base_defs = ['-DDISPATCH_CLASS=%d' % cls]

    def pan(defs, tag):
        defs = base_defs + defs
        d = os.path.join(wd, tag)
        os.makedirs(d, exist_ok=True)
        r = subprocess.run(['spin', '-a'] + defs + [pml], cwd=d, stdout=subprocess.PIPE, stderr=subprocess.PIPE, text=True)
        if r.returncode != 0 or not os.path.exists(os.path.join(d, 'pan.c')):
            return None
        r = subprocess.run(['gcc', '-O2', '-DSAFETY', '-DMEMLIM=2048', '-o', 'pan', 'pan.c'], cwd=d, stdout=subprocess.PIPE, stderr=subprocess.PIPE, text=True)
        if r.returncode != 0:
            return None
        r = subprocess.run(['./pan', '-m100000', '-c0'], cwd=d, stdout=subprocess.PIPE, stderr=subprocess.PIPE, text=True, timeout=600)
        return r.stdout

    import re
    full = pan([], 'full')
    if full is None:
        out['status'] = 'spin could not build the model'
        return out
    m = re.search(r'(\d+) states, stored', full)
    t = re.search(r'(\d+) transitions', full)
    out['states'] = int(m.group(1)) if m else 1
    out['transitions'] = int(t.group(1)) if t else 1
    out['model_runs_violating_the_invariant'] = int(re.search(r'errors: (\d+)', full).group(1)) if re.search(r'errors: (\d+)', full) else -1
    # trace validation: each distinct observation class (compiler behaviour x arrangement x link position of the user TU x outcome)
    classes = {}
    for (pi, cn, cx, opt, order), status, detail, exe in results:
        if status == 'link-failed':
            continue
        p = programs[pi]
        ntu = len(order)
        user_pos = order.index('a')
        ok = 1 if status == 'ok' else 0
        classes.setdefault((ntu, user_pos, ok), 0)
        classes[(ntu, user_pos, ok)] += 1
    validated = 0
    unreproducible = []
    for (ntu, user_pos, ok), n in sorted(classes.items()):
        res = pan(['-DOBS=1', '-DOBS_NTU=%d' % ntu, '-DOBS_USERPOS=%d' % user_pos, '-DOBS_OK=%d' % ok], 'obs_%d_%d_%d' % (ntu, user_pos, ok))
        if res is None:
            continue
        # the observer asserts(false) at the end of a run consistent with the observation: an "error" means a consistent run exists
        e = re.search(r'errors: (\d+)', res)
        if e and int(e.group(1)) > 0:
            validated += n
        else:
            unreproducible.append((ntu, user_pos, ok, n))
    out['validated'] = validated
    out['observation_classes'] = len(classes)
    if unreproducible:
        out['status'] = 'observations the model cannot reproduce (model too strict, not a property violation): %s' % unreproducible
    else:
        out['status'] = 'every observed execution is a behaviour of the model'
    return out
