"""C20 - no exceptions and no undefined behaviour on any finite input."""
import os
import subprocess
from lib import vf, qh, units

SAN = ['-fsanitize=address,undefined', '-fno-sanitize-recover=undefined', '-D_GLIBCXX_DEBUG', '-D_GLIBCXX_ASSERTIONS', '-D_GLIBCXX_SANITIZE_VECTOR', '-g0']
ENV = {'ASAN_OPTIONS': 'detect_leaks=0:abort_on_error=0:exitcode=99:detect_container_overflow=1', 'UBSAN_OPTIONS': 'print_stacktrace=0:halt_on_error=1:exitcode=98'}


def run(ctx):
    h = ctx.h
    thorough = ctx.tier == 'thorough'
    H = os.path.join(vf.VERIF, 'harness')
    jobs = []   # (label, build job, [args...] list of arg lists)

    def single(label, fname, args_list, pre='', flags=()):
        src = pre + vf.read(os.path.join(H, fname)).decode()
        jobs.append((label, {'name': 'san_' + label, 'src': src, 'opt': '-O0', 'flags': SAN + list(flags)}, args_list))

    # harnesses of the other properties at their quick alphabets, rebuilt under ASan + UBSan + libstdc++ debug mode
    single('c20_api', 'c20_api.cpp', [[]])
    single('c20_atexit', 'c20_atexit.cpp', [[]])
    npp = 16 if thorough else 8
    single('c20_parse', 'c20_parse.cpp', [[p, npp] for p in range(npp)])
    dep12 = ''
    single('c12', 'c12.cpp', [['float'], ['double'], ['longdouble']])
    single('c13', 'c13.cpp', [['float'], ['double'], ['longdouble']])
    single('c06_dims', 'c06_dims.cpp', [[]])
    core = '#include <PhQ/Dyad.hpp>\n#include <PhQ/SymmetricDyad.hpp>\n#include <PhQ/Vector.hpp>\n#include <PhQ/PlanarVector.hpp>\n'
    single('c15_core', 'c15_q.cpp', [[]], pre=core + '#define VF_C15_CORE 1\n')
    single('c16_core', 'c16_q.cpp', [[]], pre=core + '#define VF_C16_CORE 1\n')
    single('c14_core', 'c14_core.cpp', [['float', 0, 1], ['double', 0, 1], ['longdouble', 0, 1]])
    single('c10_core', 'c10_core.cpp', [['float', 0, 40], ['double', 1, 40], ['longdouble', 2, 40]])
    single('c11_core', 'c11_core.cpp', [['float'], ['longdouble']])
    for t in units.enum_types():
        fl = ['-DVF_HDR=%s' % t['hdr'], '-DVF_E=%s' % t['cpp'], '-DVF_ENAME="%s"' % t['name'], '-DVF_KIND=%d' % t['kind']]
        nm = t['name'].replace('::', '_')
        single('udump_' + nm, 'udump.cpp', [[]], flags=fl)
        single('c08neg_' + nm, 'c08_neg.cpp', [[]], flags=fl)
        if t['kind'] == 0:
            single('c02u_' + nm, 'c02_u.cpp', [[0, 1]], flags=fl)
    build_jobs = [j for _, j, _ in jobs]
    # per-quantity harnesses (mutators/accessors, every entry point, printing), chunked
    qjobs = []
    for fname in ('c17_q.cpp', 'c02_q.cpp', 'c15_q.cpp'):
        cks = qh.chunks(vf.quantity_names(), 16)
        dep = vf.sha(vf.read(os.path.join(H, fname)))
        for i, c in enumerate(cks):
            qjobs.append((fname, {'name': 'san_%s_%02d' % (fname[:-4], i), 'src': qh.wrapper(c, fname) + '\n// dep %s\n' % dep, 'opt': '-O0', 'flags': SAN}))
    if thorough:
        # the relation sweeps (every discovered operator, constructor, member; compound-assignment histories) and the tensor grids as well
        from lib import rel
        from checks.C04 import hist_sources
        R = rel.relations(ctx)
        for mode in (3, 4):
            items = [code for m, code in rel.gen_items(R) if m == mode]
            inc = ''.join('#include <PhQ/%s.hpp>\n' % n for n in vf.quantity_names())
            for k in range(0, len(items), 70):
                body = '\n'.join('  ' + c for c in items[k:k + 70])
                src = (inc + rel.HEADER + 'template <class T>\nvoid items() {\n%s\n}\nint main() {\n  rel::MODE = %d;\n  items<float>();\n  items<double>();\n  items<long double>();\n}\n' % (body, mode))
                qjobs.append(('rel', {'name': 'san_rel%d_%03d' % (mode, k // 70), 'src': src, 'opt': '-O0', 'flags': SAN}))
        for j in hist_sources(ctx, R):
            j = dict(j)
            j['name'] = 'san_' + j['name']
            j['flags'] = SAN
            j['opt'] = '-O0'
            qjobs.append(('hist', j))
        single('c09', 'c09.cpp', [['float', 0, 16], ['double', 5, 16], ['longdouble', 11, 16]])
        build_jobs = [j for _, j, _ in jobs]
    res = ctx.build_all(build_jobs + [j for _, j in qjobs])
    runs = []
    for (label, j, args_list), r in zip(jobs, res[:len(jobs)]):
        if not r[0]:
            raise vf.Undecided('sanitizer build of %s failed: %s' % (label, r[1][:2000]))
        for a in args_list:
            runs.append((label, r[0], a))
    for (fname, j), r in zip(qjobs, res[len(jobs):]):
        if not r[0]:
            raise vf.Undecided('sanitizer build of %s failed: %s' % (j['name'], r[1][:2000]))
        runs.append((j['name'], r[0], []))

    def go(x):
        label, b, a = x
        e = dict(os.environ)
        e.update(ENV)
        e.update({'VERIF_TIER': ctx.tier, 'VERIF_SEED': str(ctx.seed)})
        try:
            p = subprocess.run([b] + [str(y) for y in a], stdout=subprocess.PIPE, stderr=subprocess.PIPE, text=True, errors='replace', env=e, timeout=3000)
        except subprocess.TimeoutExpired:
            return (label, a, None, '', 'timeout')
        return (label, a, p.returncode, p.stdout, p.stderr)

    outs = ctx.pmap(go, runs)
    nrun = 0
    for label, a, rc, out, err in outs:
        nrun += 1
        if rc is None:
            raise vf.Undecided('sanitized harness %s timed out' % label)
        # functional violations printed by the harness are the other properties' business; C20 counts executions and
        # reports abnormal terminations (sanitizer report, debug-mode assertion, uncaught exception)
        for l in out.splitlines():
            if l.startswith('STAT ') or l.startswith('SAMPLE '):
                pass
        ctx.h.feed('\n'.join(l for l in out.splitlines() if l.startswith('STAT ')), label)
        if label in ('c20_api', 'c20_parse', 'c20_atexit') or label.startswith('c08neg_'):
            n0 = len(h.viols)
            ctx.h.feed('\n'.join(l for l in out.splitlines() if l.startswith('VIOL ')), label)
            for _, det in h.viols[n0:]:
                det['_cmd'] = None
        if rc != 0:
            first = ''
            for l in err.splitlines():
                if 'runtime error' in l or 'ERROR: AddressSanitizer' in l or 'Error: attempt' in l or 'Assertion' in l or 'terminate called' in l or 'what()' in l:
                    first = l.strip()
                    break
            kind = 'ubsan' if 'runtime error' in first else 'asan' if 'AddressSanitizer' in first else 'libstdc++-assertion' if ('Assertion' in first or 'attempt' in first) else \
                'uncaught-exception' if 'terminate' in first or 'what()' in first else 'abnormal-exit'
            h.viols.append(('undefined-behaviour|%s|%s' % (label.split('_0')[0] if label.startswith('san_') else label, kind),
                            {'harness': label, 'args': a, 'exit': rc, 'report': (first or err[-400:])[:500],
                             'what': 'a library call on finite inputs executed undefined behaviour or let an exception escape (sanitizer / debug-mode report)'}))
    h.stats['sanitized_executions'] = nrun
    # data races are undefined behaviour too: the const interface from two threads at once under ThreadSanitizer
    from lib import tsan
    tsan.run(ctx, 'all', 'undefined-behaviour|concurrent-use')
    h.stats['sanitized_binaries'] = len(build_jobs) + len(qjobs)
    # one pass under valgrind memcheck for reads of uninitialised values (thorough)
    if thorough:
        vsrc = vf.read(os.path.join(H, 'c20_api.cpp')).decode()
        vb, err = ctx.compile('valgrind_c20_api', vsrc, opt='-O0', flags=['-g'])
        ub = [r[0] for (label, j, a), r in zip(jobs, res[:len(jobs)])]
        plain = []
        for t in units.enum_types()[:6]:
            fl = ['-DVF_HDR=%s' % t['hdr'], '-DVF_E=%s' % t['cpp'], '-DVF_ENAME="%s"' % t['name'], '-DVF_KIND=%d' % t['kind'], '-g']
            b2, e2 = ctx.compile('valgrind_udump_' + t['name'], vf.read(os.path.join(H, 'udump.cpp')).decode(), opt='-O0', flags=fl)
            if b2:
                plain.append(b2)
        for b in [vb] + plain:
            if not b:
                continue
            p = subprocess.run(['valgrind', '--error-exitcode=97', '--track-origins=no', '-q', b], stdout=subprocess.PIPE, stderr=subprocess.PIPE, text=True, errors='replace')
            h.stats['valgrind_runs'] = h.stats.get('valgrind_runs', 0) + 1
            if p.returncode == 97:
                h.viols.append(('undefined-behaviour|valgrind|%s' % os.path.basename(b).rsplit('-', 1)[0], {'report': p.stderr[:600]}))
    rule = ('Part 1: the harnesses of the other properties (all table lookups and conversions of every enumerator of the 39 enumeration types, '
            'container conversions per unit type, every constructor/accessor/printing entry point and the mutator histories of every quantity '
            'type, tensor accessors/mutators one by one, direction and angle kernels, constitutive models, Dimensions) rebuilt with '
            'AddressSanitizer + UndefinedBehaviorSanitizer (-fno-sanitize-recover) + libstdc++ debug mode and assertions and executed at their '
            'quick alphabets: any sanitizer report, debug assertion or escaping exception is a violation. Part 2: PhQ::ParseNumber<T> on ALL byte '
            'strings of length <= %d over a 20-byte alphabet (digits, signs, exponent/hex/inf/nan letters, separators, NUL, 0xff, 0xce) x 3 '
            'numeric types, differential against strtof/strtod/strtold; ParseEnumeration on the negative-space strings of C08 for all 39 types. '
            'distinct_nontrivial = strings parsed that are accepted as numbers + sanitized executions') % (6 if thorough else 5)
    ev = h.stat('strings_parsed') + h.stat('neg_strings') + h.stat('accessor_calls') + nrun
    return vf.finish(ctx, 'exploration', rule, ev, h.stat('strings_accepted') + nrun, True, replay_fn=lambda k, d: True)
