// probe.hpp - E2: shape traits, raw component access and construction of quantities through their
// public API only. Include the PhQ headers BEFORE this file.
//   VF_SELQ        comma separated list of class templates, e.g. PhQ::Speed, PhQ::Force
//   VF_SELQ_NAMES  the same as string literals
#pragma once
#include <array>
#include <type_traits>
#include <utility>

#include "vf.hpp"

namespace PhQ {
template <typename>
class Direction;
template <typename>
class PlanarDirection;
}  // namespace PhQ

namespace vf {

template <template <class> class... Q>
struct QL {};

#ifdef VF_SELQ
using SelQ = QL<VF_SELQ>;
static const char* const SelQNames[] = {VF_SELQ_NAMES, nullptr};
// f.template operator()<Q>(name) for each selected class template
template <class F, template <class> class... Q>
void for_each_q(QL<Q...>, F&& f) {
  int i = 0;
  (f.template operator()<Q>(SelQNames[i++]), ...);
}
template <class F>
void for_each_selq(F&& f) {
  for_each_q(SelQ{}, f);
}
#endif

// ---- shapes: number of stored components, from the type returned by Value()
template <class V>
struct Shape {
  static constexpr int n = 0;
};
template <>
struct Shape<float> {
  static constexpr int n = 1;
  using T = float;
};
template <>
struct Shape<double> {
  static constexpr int n = 1;
  using T = double;
};
template <>
struct Shape<long double> {
  static constexpr int n = 1;
  using T = long double;
};
template <class X>
struct Shape<PhQ::PlanarVector<X>> {
  static constexpr int n = 2;
  using T = X;
};
template <class X>
struct Shape<PhQ::Vector<X>> {
  static constexpr int n = 3;
  using T = X;
};
template <class X>
struct Shape<PhQ::SymmetricDyad<X>> {
  static constexpr int n = 6;
  using T = X;
};
template <class X>
struct Shape<PhQ::Dyad<X>> {
  static constexpr int n = 9;
  using T = X;
};

template <class Q>
using value_t = std::decay_t<decltype(std::declval<const Q&>().Value())>;
template <class Q>
constexpr int ncomp = Shape<value_t<Q>>::n;

template <class Q, class = void>
struct HasUnit : std::false_type {};
template <class Q>
struct HasUnit<Q, std::void_t<decltype(Q::Unit())>> : std::true_type {};

// components of a raw value in declared order
template <class X>
inline void raw_get(const X& v, X* out) {
  out[0] = v;
}
template <class X>
inline void raw_get(const PhQ::PlanarVector<X>& v, X* out) {
  out[0] = v.x();
  out[1] = v.y();
}
template <class X>
inline void raw_get(const PhQ::Vector<X>& v, X* out) {
  out[0] = v.x();
  out[1] = v.y();
  out[2] = v.z();
}
template <class X>
inline void raw_get(const PhQ::SymmetricDyad<X>& v, X* out) {
  out[0] = v.xx();
  out[1] = v.xy();
  out[2] = v.xz();
  out[3] = v.yy();
  out[4] = v.yz();
  out[5] = v.zz();
}
template <class X>
inline void raw_get(const PhQ::Dyad<X>& v, X* out) {
  out[0] = v.xx();
  out[1] = v.xy();
  out[2] = v.xz();
  out[3] = v.yx();
  out[4] = v.yy();
  out[5] = v.yz();
  out[6] = v.zx();
  out[7] = v.zy();
  out[8] = v.zz();
}
template <class V>
struct RawMake;
template <>
struct RawMake<float> {
  static float make(const float* c) { return c[0]; }
};
template <>
struct RawMake<double> {
  static double make(const double* c) { return c[0]; }
};
template <>
struct RawMake<long double> {
  static long double make(const long double* c) { return c[0]; }
};
template <class X>
struct RawMake<PhQ::PlanarVector<X>> {
  static PhQ::PlanarVector<X> make(const X* c) { return PhQ::PlanarVector<X>(c[0], c[1]); }
};
template <class X>
struct RawMake<PhQ::Vector<X>> {
  static PhQ::Vector<X> make(const X* c) { return PhQ::Vector<X>(c[0], c[1], c[2]); }
};
template <class X>
struct RawMake<PhQ::SymmetricDyad<X>> {
  static PhQ::SymmetricDyad<X> make(const X* c) {
    return PhQ::SymmetricDyad<X>(c[0], c[1], c[2], c[3], c[4], c[5]);
  }
};
template <class X>
struct RawMake<PhQ::Dyad<X>> {
  static PhQ::Dyad<X> make(const X* c) {
    return PhQ::Dyad<X>(c[0], c[1], c[2], c[3], c[4], c[5], c[6], c[7], c[8]);
  }
};

// components of a quantity (or of a plain number / raw vector / tensor)
template <class Q, class X>
inline void comps(const Q& q, X* out) {
  if constexpr (std::is_floating_point_v<Q> || Shape<Q>::n != 0)
    raw_get(q, out);
  else
    raw_get(q.Value(), out);
}
template <class Q, class = void>
struct NumOf {
  using type = typename Shape<value_t<Q>>::T;
};
template <class Q>
struct NumOf<Q, std::enable_if_t<Shape<Q>::n != 0>> {
  using type = typename Shape<Q>::T;
};
template <class Q>
using num_t = typename NumOf<Q>::type;

template <class Q>
constexpr bool is_direction =
    std::is_same_v<Q, PhQ::Direction<num_t<Q>>> || std::is_same_v<Q, PhQ::PlanarDirection<num_t<Q>>>;

// Build a quantity holding exactly the given stored (standard-unit) components, through the public
// constructors: dimensional types Q(value, Standard unit) (the standard-unit path performs no
// arithmetic), dimensionless types Q(value). Directions normalise their argument.
template <class Q>
inline Q make(const num_t<Q>* c) {
  using V = value_t<Q>;
  if constexpr (HasUnit<Q>::value)
    return Q(RawMake<V>::make(c), Q::Unit());
  else
    return Q(RawMake<V>::make(c));
}
template <class Q>
constexpr int count_of() {
  if constexpr (std::is_floating_point_v<Q>)
    return 1;
  else if constexpr (Shape<Q>::n != 0)
    return Shape<Q>::n;
  else
    return ncomp<Q>;
}

// "Exactly<X>" converts to const X& only: is_constructible<C, Exactly<A>, Exactly<B>> is true only
// for a constructor whose parameters are declared with these very types.
template <class X>
struct Exactly {
  template <class U, class = std::enable_if_t<std::is_same_v<U, X>>>
  operator const U&() const;
};

template <class Q>
inline std::string comps_hex(const Q& q) {
  using X = num_t<Q>;
  X c[9];
  comps(q, c);
  std::string s = "[";
  for (int i = 0; i < count_of<Q>(); i++) s += (i ? "," : "") + jstr(hex(c[i]));
  return s + "]";
}

}  // namespace vf
