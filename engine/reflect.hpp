// reflect.hpp - E1: enumerators of an `enum class : int8_t` discovered by the compiler, without
// consulting any of the library's tables. A declared enumerator prints in __PRETTY_FUNCTION__ as
// `PhQ::Unit::Length::Metre`; any other value as `(PhQ::Unit::Length)13`. Works identically with
// g++ 12 and clang++ 14.
#pragma once
#include <string>
#include <string_view>
#include <utility>
#include <vector>

namespace vf {

template <typename E, E V>
constexpr std::string_view enum_token() {
  std::string_view s = __PRETTY_FUNCTION__;
  auto p = s.rfind("V = ");
  auto t = s.substr(p + 4);
  auto e = t.find_first_of(";]");
  return t.substr(0, e);
}
template <typename E, E V>
constexpr bool enum_valid() {
  return enum_token<E, V>()[0] != '(';
}
template <typename E, E V>
constexpr std::string_view enum_name() {
  std::string_view t = enum_token<E, V>();
  auto c = t.rfind("::");
  return c == t.npos ? t : t.substr(c + 2);
}

template <typename E>
struct Enumerator {
  E value;
  int number;
  std::string name;
};

namespace detail {
template <typename E, int I>
void enum_one(std::vector<Enumerator<E>>& out) {
  constexpr E v = static_cast<E>(I);
  if constexpr (enum_valid<E, v>()) out.push_back({v, I, std::string(enum_name<E, v>())});
}
template <typename E, int... I>
void enum_all(std::vector<Enumerator<E>>& out, std::integer_sequence<int, I...>) {
  (enum_one<E, I - 128>(out), ...);
}
}  // namespace detail

// all declared enumerators with underlying values in [-128, 127]
template <typename E>
inline const std::vector<Enumerator<E>>& enumerators() {
  static const std::vector<Enumerator<E>> v = [] {
    std::vector<Enumerator<E>> out;
    detail::enum_all<E>(out, std::make_integer_sequence<int, 256>{});
    return out;
  }();
  return v;
}

// compile-time iteration: f.template operator()<E, V>() for each declared enumerator
namespace detail {
template <typename E, int I, class F>
void static_one(F& f) {
  constexpr E v = static_cast<E>(I);
  if constexpr (enum_valid<E, v>()) f.template operator()<v>();
}
template <typename E, class F, int... I>
void static_all(F& f, std::integer_sequence<int, I...>) {
  (static_one<E, I - 128>(f), ...);
}
}  // namespace detail
template <typename E, class F>
void for_each_enumerator(F&& f) {
  detail::static_all<E>(f, std::make_integer_sequence<int, 256>{});
}

}  // namespace vf
