"""E5 - independent oracle for unit symbols (DESIGN Appendix A).

A symbol such as `ft·lbf/slug/°R`, `kiB`, `mi/hr`, `W·hr/km`, `rad^2` is expanded into an exact SI
magnitude (Fraction x pi^k), the 7 SI dimension exponents and two pseudo-exponents (plane angle,
information). Nothing here is taken from acodcha/phq: the atom table restates the SI Brochure
(9th ed.), NIST SP 811 and the 1959 international yard-and-pound agreement.

Grammar
    expr   := ['/' | '1/'] term { '/' term }            left-associative: a/b/c = a / (b*c)
    term   := factor { ('·' | '*') factor }
    factor := ( atom | '(' expr ')' ) [ '^' int | '^(' int ')' | digits ]
    atom   := longest match in the atom table not followed by a letter, degree sign, mu or quote
An atom may have several readings (lb = lbm | lbf, C = coulomb | degree Celsius, BTU variants); a
symbol denotes the set of products of readings.
"""
import re
from decimal import Decimal, getcontext
from fractions import Fraction as F

getcontext().prec = 60
PI_S = '3.14159265358979323846264338327950288419716939937510582097494459'
PIF = F(PI_S)

# exponent vector: T L M I Th N J | plane angle | information


def D(T=0, L=0, M=0, I=0, Th=0, N=0, J=0, ang=0, bit=0):
    return (T, L, M, I, Th, N, J, ang, bit)


class Q:
    __slots__ = ('f', 'd', 'p')

    def __init__(self, f, d, p=0):
        self.f = F(f)
        self.d = tuple(d)
        self.p = p

    def __mul__(a, b):
        return Q(a.f * b.f, tuple(x + y for x, y in zip(a.d, b.d)), a.p + b.p)

    def __truediv__(a, b):
        return Q(a.f / b.f, tuple(x - y for x, y in zip(a.d, b.d)), a.p - b.p)

    def __pow__(a, n):
        return Q(a.f ** n, tuple(x * n for x in a.d), a.p * n)

    def key(self):
        return (self.f, self.d, self.p)

    def value(self):
        """exact rational image (pi replaced by a 60-digit rational)"""
        return self.f * PIF ** self.p


def num(x):
    return Q(F(x), D())


ONE = Q(1, D())
m = Q(1, D(L=1))
s_ = Q(1, D(T=1))
kg = Q(1, D(M=1))
A = Q(1, D(I=1))
K = Q(1, D(Th=1))
mol = Q(1, D(N=1))
rad = Q(1, D(ang=1))
bit = Q(1, D(bit=1))
inch = Q(F('0.0254'), D(L=1))
ft = inch * num(12)
yd = ft * num(3)
mi = ft * num(5280)
nmi = Q(1852, D(L=1))
minute = Q(60, D(T=1))
hr = Q(3600, D(T=1))
lbm = Q(F('0.45359237'), D(M=1))
g0 = Q(F('9.80665'), D(T=-2, L=1))
lbf = lbm * g0
N_ = kg * m / s_ ** 2
J_ = N_ * m
W_ = J_ / s_
Pa = N_ / m ** 2
C_ = A * s_
Hz = ONE / s_
slug = lbf * s_ ** 2 / ft
slinch = lbf * s_ ** 2 / inch
degR = Q(F(5, 9), D(Th=1))
deg = Q(F(1, 180), D(ang=1), 1)
arcmin = deg / num(60)
arcsec = deg / num(3600)
rev = Q(2, D(ang=1), 1)
echarge = Q(F('1.602176634e-19'), D(T=1, I=1))
eV = Q(F('1.602176634e-19'), J_.d)

atoms = {}


def add(names, q):
    for n in names.split('|'):
        atoms.setdefault(n, []).append(q)


PREF = {'k': 3, 'M': 6, 'G': 9, 'T': 12, 'P': 15, 'm': -3, 'μ': -6, 'u': -6, 'n': -9, 'c': -2, 'd': -1}


def prefixed(sym, q, prefs):
    add(sym, q)
    for p in prefs:
        add(p + sym, q * num(F(10) ** PREF[p]))


prefixed('m', m, 'kcdmμun')
add('meter|meters|metre|metres', m)
for w, pw in [('kilo', 3), ('deci', -1), ('centi', -2), ('milli', -3), ('micro', -6), ('nano', -9)]:
    for base in ['meter', 'meters', 'metre', 'metres']:
        add(w + base, m * num(F(10) ** pw))
add('Micrometre|Micrometres|micron|microns', m * num(F(10) ** -6))
add('in|inch|inches', inch)
add('ft|foot|feet', ft)
add('yd|yard|yards', yd)
add('mi|mile|miles', mi)
add('nmi|NM|nautical mile|nautical miles', nmi)
mil = inch * num(F(1, 1000))
add('mil|mils|milin|milliinch|milliinches|millinch|thou|thous|thousandth|thousandths', mil)
add('μin|uin|microinch|microinches', inch * num(F(10) ** -6))
prefixed('s', s_, 'mμun')
add('second|seconds', s_)
add('nanosecond|nanoseconds', s_ * num(F(10) ** -9))
add('microsecond|microseconds', s_ * num(F(10) ** -6))
add('millisecond|milliseconds', s_ * num(F(10) ** -3))
add('min|mins|minute|minutes', minute)
add('hr|hrs|hour|hours', hr)
add('d|day|days', Q(86400, D(T=1)))
add('wk|week|weeks', Q(604800, D(T=1)))
add('kg|kilogram|kilograms', kg)
add('g|gram|grams', kg * num(F(1, 1000)))
add('slug|slugs', slug)
add('slinch|slinches', slinch)
add('lbm|pound-mass', lbm)
add('lb|lbs|pound|pounds', lbm)
add('lb|lbs|lbf|pound|pounds|pound-force', lbf)
prefixed('N', N_, 'kMGmμun')
add('dyn|dyne|dynes', N_ * num(F(10) ** -5))
prefixed('J', J_, 'kMGmμun')
prefixed('W', W_, 'kMGmμun')
prefixed('Pa', Pa, 'kMG')
add('bar', Pa * num(10 ** 5))
add('atm|atmosphere|atmospheres', Pa * num(101325))
add('psi', lbf / inch ** 2)
add('psf', lbf / ft ** 2)
add('P|poise', Pa * s_ * num(F(1, 10)))
prefixed('A', A, 'kMGTmμun')
prefixed('C', C_, 'kMGTmμun')
add('e', echarge)
prefixed('Hz', Hz, 'kMG')
for calv in ('4.184', '4.1868'):
    cal = J_ * num(F(calv))
    prefixed('cal', cal, 'kMGmμun')
    add('Cal', cal * num(1000))
prefixed('eV', eV, 'kMGmμun')
for b in ('1055.05585262', '1055.056', '1055.06', '1054.3503', '1054.35'):
    add('BTU|btu|Btu', J_ * num(F(b)))
add('K|°K|degK', K)
add('°C|degC|C', K)
add('°R|degR|R', degR)
add('°F|degF|F', degR)
prefixed('mol', mol, 'kMG')
add('particles|particle', mol / num(F('6.02214076e23')))
add('rad|radian|radians', rad)
add('deg|degree|degrees|°', deg)
add("'|am|arcmin|arcmins|arcminute|arcminutes", arcmin)
add('"|as|arcs|arcsec|arcsecs|arcsecond|arcseconds', arcsec)
add('rev|revolution|revolutions', rev)
add('sr|steradian|steradians', rad ** 2)
add('ha|hectare|hectares', m ** 2 * num(10 ** 4))
add('ac|acre|acres', ft ** 2 * num(43560))
add('L|l|liter|liters|litre|litres', m ** 3 * num(F(1, 1000)))
add('mL|ml|milliliter|milliliters|millilitre|millilitres', m ** 3 * num(F(10) ** -6))
add('kn|knot|knots', nmi / hr)
# further common units a maintainer might add (NIST SP 811 values), so that a new unit is judged rather than left undecided
add('Å|angstrom|angstroms', m * num(F(10) ** -10))
add('t|tonne|tonnes', kg * num(1000))
add('oz|ounce|ounces', lbm * num(F(1, 16)))
add('kgf', kg * g0)
add('kip|kips', lbf * num(1000))
add('ksi', lbf * num(1000) / inch ** 2)
add('Torr|torr', Pa * num(F(101325, 760)))
add('mmHg', Pa * num(F('133.322387415')))
add('hp', ft * lbf / s_ * num(550))
add('gal', inch ** 3 * num(231))
add('mph', mi / hr)
byte = bit * num(8)
add('b|bit|bits', bit)
add('B|byte|bytes', byte)
for sym, word, pw in [('k', 'kilo', 3), ('M', 'mega', 6), ('G', 'giga', 9), ('T', 'tera', 12), ('P', 'peta', 15)]:
    add('%sb|%sbit|%sbits' % (sym, word, word), bit * num(F(10) ** pw))
    add('%sB|%sbyte|%sbytes' % (sym, word, word), byte * num(F(10) ** pw))
for sym, word, pw in [('ki', 'kibi', 1), ('Mi', 'mebi', 2), ('Gi', 'gibi', 3), ('Ti', 'tebi', 4), ('Pi', 'pebi', 5)]:
    add('%sb|%sbit|%sbits' % (sym, word, word), bit * num(F(1024) ** pw))
    add('%sB|%sbyte|%sbytes' % (sym, word, word), byte * num(F(1024) ** pw))
add('1', ONE)

_names = sorted(atoms, key=len, reverse=True)
_follow = set("°μ'\"")


class ParseError(ValueError):
    pass


def parse(sym):
    """all readings (list of Q, deduplicated) of a symbol; raises ParseError if the grammar or the
    atom table does not cover it"""
    s = sym
    n = len(s)
    pos = 0

    def peek():
        return s[pos] if pos < n else ''

    def expr():
        nonlocal pos
        if peek() == '/':
            vals = [ONE]
        else:
            vals = term()
        while peek() == '/':
            pos += 1
            r = term()
            vals = [a / b for a in vals for b in r]
        return vals

    def term():
        nonlocal pos
        vals = factor()
        while peek() in ('·', '*'):
            pos += 1
            r = factor()
            vals = [a * b for a in vals for b in r]
        return vals

    def factor():
        nonlocal pos
        if peek() == '(':
            pos += 1
            v = expr()
            if peek() != ')':
                raise ParseError('unbalanced parenthesis in %r' % sym)
            pos += 1
        else:
            for nm in _names:
                if s.startswith(nm, pos):
                    end = pos + len(nm)
                    if end < n and (s[end].isalpha() or s[end] in _follow):
                        continue
                    pos = end
                    v = atoms[nm]
                    break
            else:
                raise ParseError('no atom at offset %d of %r' % (pos, sym))
        if peek() == '^':
            pos += 1
            mm = re.match(r'\((-?\d+)\)|(-?\d+)', s[pos:])
            if not mm:
                raise ParseError('bad exponent in %r' % sym)
            pos += mm.end()
            e = int(mm.group(1) or mm.group(2))
            v = [a ** e for a in v]
        elif peek().isdigit():
            mm = re.match(r'\d+', s[pos:])
            pos += mm.end()
            e = int(mm.group(0))
            v = [a ** e for a in v]
        return v

    if n == 0:
        raise ParseError('empty symbol')
    v = expr()
    if pos != n:
        raise ParseError('trailing text at offset %d of %r' % (pos, sym))
    out = {}
    for q in v:
        out[q.key()] = q
    return list(out.values())


PSEUDO = {'Angle': (1, 0), 'AngularSpeed': (1, 0), 'AngularAcceleration': (1, 0), 'SolidAngle': (2, 0),
          'Memory': (0, 1), 'MemoryRate': (0, 1)}

# offsets (value_in_K = a * x + b) exist for the Temperature type only
TEMP_OFFSETS = {'°C': F('273.15'), '°F': F('459.67') * F(5, 9)}


def admissible(type_name, dims, sym):
    """readings of sym that fit the unit type: the 7 declared SI exponents and the type's
    angle/information pseudo-exponents"""
    want = PSEUDO.get(type_name, (0, 0))
    return [q for q in parse(sym) if q.d[:7] == tuple(dims) and (q.d[7], q.d[8]) == want]


def dims_of(type_name, sym):
    """set of 7-vectors the symbol can denote (with the type's pseudo-exponents)"""
    want = PSEUDO.get(type_name, (0, 0))
    return sorted({q.d[:7] for q in parse(sym) if (q.d[7], q.d[8]) == want})


def dec(fr, digits=45):
    """decimal string of a Fraction with `digits` significant digits"""
    if fr == 0:
        return '0'
    getcontext().prec = digits + 5
    d = Decimal(fr.numerator) / Decimal(fr.denominator)
    return format(d, '.%de' % digits)


def parse_hexfloat(h):
    mm = re.match(r'(-?)0x([0-9a-f]+)\.?([0-9a-f]*)p([+-]?\d+)$', h)
    if not mm:
        raise ValueError(h)
    sign, ip, fp, ex = mm.groups()
    val = F(int(ip + fp, 16), 16 ** len(fp)) * F(2) ** int(ex)
    return -val if sign else val
