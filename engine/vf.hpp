// vf.hpp - common reporting / numeric helpers for every harness (independent of /repo).
// Protocol on stdout (parsed by lib/vf.py):
//   STAT <name> <integer>        counters, summed over all harness processes of a check
//   MAXF <name> <float>          maxima, max-ed over processes
//   SAMPLE <json>                an actual explored case (capped per process)
//   VIOL <key>\t<json>           a property violation with canonical key and details
//   NOTE <text>                  free information kept in the evidence
//   SET <name> <token>           set-valued information (union over processes, counted)
#pragma once
#include <quadmath.h>

#include <cmath>
#include <cstdint>
#include <cstdio>
#include <cstdlib>
#include <cstring>
#include <limits>
#include <map>
#include <set>
#include <sstream>
#include <string>
#include <type_traits>
#include <vector>

namespace vf {

using f128 = __float128;

struct Report {
  std::map<std::string, long long> stats;
  std::map<std::string, double> maxf;
  int samples = 0;
  int sample_cap = 6;
  long long viols = 0;
  long long viol_cap = 40;  // printed violations per process; the rest are only counted
  std::set<std::string> viol_keys;
  ~Report() { flush(); }
  void flush() {
    for (auto& [k, v] : stats) std::printf("STAT %s %lld\n", k.c_str(), v);
    for (auto& [k, v] : maxf) std::printf("MAXF %s %.17g\n", k.c_str(), v);
    stats.clear();
    maxf.clear();
    std::fflush(stdout);
  }
};
inline Report& report() {
  static Report r;
  return r;
}
inline void stat(const std::string& name, long long v = 1) { report().stats[name] += v; }
inline void maxf(const std::string& name, double v) {
  auto& m = report().maxf;
  auto it = m.find(name);
  if (it == m.end())
    m[name] = v;
  else if (v > it->second)
    it->second = v;
}
inline std::string jesc(const std::string& s) {
  std::string r;
  for (unsigned char c : s) {
    if (c == '"' || c == '\\') {
      r += '\\';
      r += (char)c;
    } else if (c < 0x20) {
      char b[8];
      std::snprintf(b, sizeof b, "\\u%04x", c);
      r += b;
    } else
      r += (char)c;
  }
  return r;
}
inline std::string jstr(const std::string& s) { return "\"" + jesc(s) + "\""; }
inline void sample(const std::string& json) {
  if (report().samples < report().sample_cap) {
    report().samples++;
    std::printf("SAMPLE %s\n", json.c_str());
  }
}
inline void note(const std::string& text) { std::printf("NOTE %s\n", text.c_str()); }
inline void setadd(const std::string& name, const std::string& token) {
  std::printf("SET %s %s\n", name.c_str(), token.c_str());
}
// key: canonical identity of the failing case (no tabs/newlines); detail: JSON object text.
inline void viol(const std::string& key, const std::string& detail_json) {
  Report& r = report();
  r.viols++;
  stat("violations_raw");
  if (r.viol_keys.count(key)) return;  // one line per key
  if ((long long)r.viol_keys.size() >= r.viol_cap) {
    stat("violations_not_printed");
    return;
  }
  r.viol_keys.insert(key);
  std::printf("VIOL %s\t%s\n", key.c_str(), detail_json.c_str());
  std::fflush(stdout);
}

// ---------------------------------------------------------------- numeric helpers
template <class T>
struct TName;
template <>
struct TName<float> {
  static constexpr const char* value = "float";
};
template <>
struct TName<double> {
  static constexpr const char* value = "double";
};
template <>
struct TName<long double> {
  static constexpr const char* value = "long double";
};

// exact textual image of a value (hex float), usable in replay files.
template <class T>
inline std::string hex(T v) {
  char b[64];
  if constexpr (std::is_same_v<T, long double>)
    std::snprintf(b, sizeof b, "%La", v);
  else
    std::snprintf(b, sizeof b, "%a", (double)v);
  return b;
}
inline std::string hexq(f128 v) {
  char b[128];
  quadmath_snprintf(b, sizeof b, "%.36Qg", v);
  return b;
}
template <class T>
inline std::string dec(T v) {
  char b[64];
  if constexpr (std::is_same_v<T, long double>)
    std::snprintf(b, sizeof b, "%.21Lg", v);
  else if constexpr (std::is_same_v<T, double>)
    std::snprintf(b, sizeof b, "%.17g", v);
  else
    std::snprintf(b, sizeof b, "%.9g", (double)v);
  return b;
}

// bitwise equality on the value bits (long double: 80 bits; padding never compared).
template <class T>
inline bool same_bits(T a, T b) {
  if (std::isnan(a) && std::isnan(b)) return true;
  return a == b && std::signbit(a) == std::signbit(b);
}

// size of one unit in the last place of T at magnitude |x| (x exact, in f128); for |x| below the
// smallest normal the ulp of the smallest normal binade (i.e. the subnormal spacing) is used.
template <class T>
inline f128 ulp_at(f128 x) {
  x = fabsq(x);
  const f128 mn = (f128)std::numeric_limits<T>::min();
  if (!(x >= mn)) x = mn;
  int e;
  frexpq(x, &e);  // x = m * 2^e, 0.5 <= m < 1
  return ldexpq((f128)1, e - std::numeric_limits<T>::digits);
}
// |observed - exact| measured in ulps of T at scale (default: |exact|).
template <class T>
inline double ulps(T observed, f128 exact, f128 scale = -1) {
  if (scale < 0) scale = exact;
  if (std::isnan(observed)) return isnanq(exact) ? 0.0 : INFINITY;
  if (std::isinf(observed)) {
    if (isinfq(exact) && (signbitq(exact) != 0) == std::signbit(observed)) return 0.0;
    // overflow of a correctly rounded result: accept when |exact| > max of T
    if (fabsq(exact) > (f128)std::numeric_limits<T>::max() &&
        (signbitq(exact) != 0) == std::signbit(observed))
      return 0.0;
    return INFINITY;
  }
  f128 d = fabsq((f128)observed - exact);
  return (double)(d / ulp_at<T>(scale));
}

// next representable value away by n steps (n may be negative)
template <class T>
inline T step(T x, int n) {
  const T inf = std::numeric_limits<T>::infinity();
  for (; n > 0; --n) x = std::nextafter(x, inf);
  for (; n < 0; ++n) x = std::nextafter(x, -inf);
  return x;
}

inline f128 pi_q() { return 4 * atanq((f128)1); }
inline f128 parse_q(const char* s) { return strtoflt128(s, nullptr); }

// FNV-1a over bytes; used for state hashing in the BFS explorers
inline uint64_t fnv(const void* p, size_t n, uint64_t h = 1469598103934665603ULL) {
  const unsigned char* c = static_cast<const unsigned char*>(p);
  for (size_t i = 0; i < n; i++) {
    h ^= c[i];
    h *= 1099511628211ULL;
  }
  return h;
}
// hash of the value bits of a T (long double: first 10 bytes)
template <class T>
inline uint64_t hbits(T v, uint64_t h = 1469598103934665603ULL) {
  if constexpr (std::is_same_v<T, long double>)
    return fnv(&v, 10, h);
  else
    return fnv(&v, sizeof v, h);
}

}  // namespace vf
