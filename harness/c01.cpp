// c01.cpp - every ordered pair of units of ONE unit type x 3 numeric types x value alphabet,
// through the run-time dispatch (PhQ::Convert) and the compile-time path (ConvertStatically),
// against the exact affine map implied by the units' own symbols (factors file written by the
// python oracle; nothing in it comes from the library's constants).
//   -DVF_HDR='<PhQ/Unit/Length.hpp>' -DVF_E='PhQ::Unit::Length' -DVF_ENAME='"Length"'
//   -DVF_STATIC_ALL=1 : instantiate ConvertStatically for all ordered pairs (thorough)
// usage: c01 <factors-file> <part> <nparts> [exhaustive_float]
#include VF_HDR

#include <algorithm>
#include <fstream>
#include <iostream>

#include "reflect.hpp"
#include "vf.hpp"

using E = VF_E;
using vf::f128;

struct UnitF {
  int number;
  std::string name;
  f128 a, b;  // value_in_standard = a * x + b
};
static std::vector<UnitF> U;
static int idx_of(int number) {
  for (size_t i = 0; i < U.size(); i++)
    if (U[i].number == number) return (int)i;
  return -1;
}
static bool thorough = false;
static double TOL_HOP = 8.0;  // ulps per hop (DESIGN C01: "a few ulps" = 8 for one hop, 16 for two)

template <class T>
static std::vector<T> mantissas() {
  // Appendix B: boundary mantissas in [1,2): 1, all-ones, all-ones-1, 0101.., 1010.., each single
  // bit, each (2^k-1) prefix; + seed-driven stratified extras (one per 1/64 of the range)
  const int p = std::numeric_limits<T>::digits - 1;
  std::set<long double> s;
  auto add = [&](long double frac) { s.insert(1.0L + frac); };
  add(0);
  long double ones = 0, alt1 = 0, alt2 = 0;
  for (int k = 1; k <= p; k++) {
    long double bit = std::ldexp(1.0L, -k);
    ones += bit;
    if (k % 2) alt1 += bit; else alt2 += bit;
    add(bit);
    add(ones);  // prefix of k ones
  }
  add(ones - std::ldexp(1.0L, -p));
  add(alt1);
  add(alt2);
  unsigned long long seed = 0x9e3779b97f4a7c15ULL ^ (unsigned long long)std::atoll(std::getenv("VERIF_SEED") ? std::getenv("VERIF_SEED") : "0");
  const int strata = thorough ? 4096 : 64;
  for (int k = 0; k < strata; k++) {
    seed = seed * 6364136223846793005ULL + 1442695040888963407ULL;
    long double u = (long double)(seed >> 11) / (long double)(1ULL << 53);
    long double frac = (k + u) / strata;
    // round to p bits
    frac = std::floor(std::ldexp(frac, p)) * std::ldexp(1.0L, -p);
    add(frac);
  }
  std::vector<T> out;
  for (long double v : s) out.push_back((T)v);
  return out;
}

template <class T>
static void check_one(const char* path, const UnitF& f, const UnitF& t, T x, T got, long long& nontrivial) {
  const f128 num = f.a * (f128)x + f.b - t.b;
  const f128 ref = num / t.a;
  const int hops = (f.number != (int)static_cast<int8_t>(PhQ::Standard<E>)) + (t.number != (int)static_cast<int8_t>(PhQ::Standard<E>));
  f128 scale = fabsq(ref);
  if (f.b != 0 || t.b != 0) {
    f128 s2 = (fabsq(f.a * (f128)x) + fabsq(f.b) + fabsq(t.b)) / t.a;
    if (s2 > scale) scale = s2;
  }
  double err;
  if (hops == 0) {
    err = vf::same_bits(got, x) ? 0.0 : INFINITY;
  } else {
    err = vf::ulps<T>(got, ref, scale);
  }
  vf::stat("conversions");
  if (f.number != t.number) nontrivial++;
  const double tol = TOL_HOP * hops;
  std::string mk = std::string("max_ulps_") + (hops == 1 ? "one_hop_" : "two_hops_") + vf::TName<T>::value;
  if (hops && std::isfinite(err)) vf::maxf(mk, err);
  bool bad = hops == 0 ? err != 0.0 : !(err <= tol);
  // sign of zero: a linear map of +-0 must stay a zero
  if (!bad && x == 0 && f.b == 0 && t.b == 0 && got != 0) bad = true;
  if (bad) {
    // one key per (pair, numeric type, path, sign class)
    std::string key = std::string("convert|") + VF_ENAME + "|" + f.name + "->" + t.name + "|" + vf::TName<T>::value + "|" + path +
                      (x < 0 ? "|neg" : x == 0 ? "|zero" : "|pos");
    vf::viol(key, "{\"from\":" + vf::jstr(f.name) + ",\"to\":" + vf::jstr(t.name) + ",\"numeric_type\":" +
                      vf::jstr(vf::TName<T>::value) + ",\"path\":" + vf::jstr(path) + ",\"x\":" + vf::jstr(vf::hex(x)) + ",\"x_dec\":" +
                      vf::jstr(vf::dec(x)) + ",\"observed\":" + vf::jstr(vf::hex(got)) + ",\"observed_dec\":" + vf::jstr(vf::dec(got)) +
                      ",\"exact\":" + vf::jstr(vf::hexq(ref)) + ",\"error_ulps\":" + (std::isfinite(err) ? std::to_string(err) : std::string("\"inf\"")) +
                      ",\"tolerance_ulps\":" + std::to_string(tol) + "}");
  }
}

// values for an ordered pair: +-0, +-m*2^e
template <class T>
static std::vector<T> values_for(const UnitF& f, const UnitF& t) {
  static const std::vector<T> M = mantissas<T>();
  std::vector<T> v = {(T)0, -(T)0};
  // safe exponent range: input, standard-unit intermediate and result all normal and finite
  f128 g[3] = {1, fabsq(f.a), fabsq(f.a / t.a)};
  f128 gmax = 1, gmin = 1;
  for (f128 x : g) {
    if (x > gmax) gmax = x;
    if (x < gmin) gmin = x;
  }
  int eg_hi, eg_lo;
  frexpq(gmax, &eg_hi);
  frexpq(gmin, &eg_lo);
  const int e_hi = std::numeric_limits<T>::max_exponent - 3 - std::max(0, eg_hi);
  const int e_lo = std::numeric_limits<T>::min_exponent + 3 - std::min(0, eg_lo - 1);
  std::vector<int> exps = {e_lo, -20, -1, 0, 1, 20, e_hi};
  if (thorough) {
    for (int e = e_lo; e <= e_hi; e += (e_hi - e_lo) / 37 + 1) exps.push_back(e);
  }
  const bool affine = (f.b != 0 || t.b != 0);
  for (int e : exps) {
    if (e < e_lo || e > e_hi) continue;
    for (T m : M) {
      T x = std::ldexp(m, e);
      v.push_back(x);
      v.push_back(-x);
    }
  }
  if (affine) {
    // cancellation regions: image zero in the target unit, image zero in the standard unit
    std::vector<long double> centres = {(long double)((t.b - f.b) / f.a), (long double)(-f.b / f.a), 1, 100, 273.15L, 459.67L, 491.67L,
                                        255.3722222222222222L, 233.15L, -40.0L, 32.0L, 0.7L};
    for (long double c : centres)
      for (int sgn : {1, -1}) {
        T x0 = (T)(sgn * c);
        for (int k = -64; k <= 64; k++) v.push_back(vf::step(x0, k));
      }
  }
  return v;
}

template <class T>
static void runtime_pairs(int part, int nparts) {
  long long nontrivial = 0;
  for (size_t i = 0; i < U.size(); i++) {
    if ((int)(i % nparts) != part) continue;
    for (size_t j = 0; j < U.size(); j++) {
      const auto& f = U[i];
      const auto& t = U[j];
      const E ef = static_cast<E>(f.number), et = static_cast<E>(t.number);
      const std::vector<T> vals = values_for<T>(f, t);
      for (T x : vals) {
        const T got = PhQ::Convert(x, ef, et);
        check_one<T>("runtime", f, t, x, got, nontrivial);
      }
      vf::stat("ordered_pairs_runtime");
      if (i == 1 && j == 2 && std::is_same_v<T, double>)
        vf::sample(std::string("{\"type\":") + vf::jstr(VF_ENAME) + ",\"from\":" + vf::jstr(f.name) + ",\"to\":" + vf::jstr(t.name) +
                   ",\"values\":" + std::to_string(vals.size()) + ",\"x\":\"0x1.5555555555555p+20\",\"factor_from\":" + vf::jstr(vf::hexq(f.a)) +
                   ",\"factor_to\":" + vf::jstr(vf::hexq(t.a)) + "}");
    }
  }
  vf::stat("nontrivial_conversions", nontrivial);
}

// ---- compile-time path: one thin thunk per (From, To); the checking loop is shared
template <class T, E From, E To>
T static_thunk(T x) {
  return PhQ::ConvertStatically<E, From, To>(x);
}
template <class T>
void static_pair(int i, int j, T (*conv)(T), E from, E to) {
  long long nontrivial = 0;
  const std::vector<T> vals = values_for<T>(U[i], U[j]);
  for (T x : vals) {
    const T got = conv(x);
    check_one<T>("static", U[i], U[j], x, got, nontrivial);
    // the two paths are the same two hops: they must agree bit for bit
    const T rt = PhQ::Convert(x, from, to);
    if (!vf::same_bits(rt, got))
      vf::viol(std::string("static-vs-runtime|") + VF_ENAME + "|" + U[i].name + "->" + U[j].name + "|" + vf::TName<T>::value,
               "{\"x\":" + vf::jstr(vf::hex(x)) + ",\"static\":" + vf::jstr(vf::hex(got)) + ",\"runtime\":" + vf::jstr(vf::hex(rt)) + "}");
  }
  vf::stat("ordered_pairs_static");
  vf::stat("nontrivial_conversions", nontrivial);
}
template <class T, E From>
struct StaticTo {
  int part, nparts;
  template <E To>
  void operator()() {
#ifdef VF_STATIC_ALL
    constexpr bool take = true;
#else
    constexpr bool take = (From == PhQ::Standard<E> || To == PhQ::Standard<E>);
#endif
    if constexpr (take) {
      const int i = idx_of((int)static_cast<int8_t>(From)), j = idx_of((int)static_cast<int8_t>(To));
      if (i < 0 || j < 0) return;
      if ((i % nparts) != part) return;
      static_pair<T>(i, j, &static_thunk<T, From, To>, From, To);
    }
  }
};
template <class T>
struct StaticFrom {
  int part, nparts;
  template <E From>
  void operator()() {
    StaticTo<T, From> inner{part, nparts};
    vf::for_each_enumerator<E>(inner);
  }
};


// ---- thorough: every float mantissa. For a linear pair (no offsets) all 2^23 mantissas of three binades (the relative
// error of a chain of constant factors does not depend on the binade; three are kept so that a magnitude-dependent defect
// is still seen), converted through the container form; for the affine temperature pairs all 2^32 float bit patterns.
// Reference in long double (64-bit mantissa, 2^-40 of a float ulp).
static void float_sweep(int part, int nparts) {
  std::vector<float> buf(1u << 23), orig(1u << 23);
  long pair_index = 0;
  for (size_t i = 0; i < U.size(); i++)
    for (size_t j = 0; j < U.size(); j++) {
      if ((pair_index++ % nparts) != part) continue;
      const auto& f = U[i];
      const auto& t = U[j];
      const E ef = static_cast<E>(f.number), et = static_cast<E>(t.number);
      const int hops = (f.number != (int)static_cast<int8_t>(PhQ::Standard<E>)) + (t.number != (int)static_cast<int8_t>(PhQ::Standard<E>));
      if (hops == 0) continue;
      const long double af = (long double)f.a, bf = (long double)f.b, at = (long double)t.a, bt = (long double)t.b;
      const double tol = TOL_HOP * hops;
      auto report = [&](float x, float got, long double ref, double err) {
        vf::viol(std::string("convert|") + VF_ENAME + "|" + f.name + "->" + t.name + "|float|all-mantissas" + (x < 0 ? "|neg" : "|pos"),
                 "{\"from\":" + vf::jstr(f.name) + ",\"to\":" + vf::jstr(t.name) + ",\"x\":" + vf::jstr(vf::hex(x)) + ",\"observed\":" + vf::jstr(vf::hex(got)) + ",\"exact\":" +
                     vf::jstr(vf::hex(ref)) + ",\"error_ulps\":" + std::to_string(err) + ",\"tolerance_ulps\":" + std::to_string(tol) + "}");
      };
      if (bf == 0 && bt == 0) {
        const long double ratio = af / at;
        for (int b : {0, 19, -21}) {
          // skip binades where input, intermediate or result would leave the normal float range
          const long double lo = std::ldexp(1.0L, b), top = std::ldexp(2.0L, b);
          if (std::max({top, top * af, top * ratio}) > 1e37L || std::min({lo, lo * af, lo * ratio}) < 1e-36L) continue;
          for (int sgn : {1, -1}) {
            for (uint32_t m = 0; m < (1u << 23); m++) orig[m] = sgn * std::ldexp(1.0f + (float)m * 0x1p-23f, b);
            buf = orig;
            PhQ::ConvertInPlace(buf, ef, et);
            int e0;
            std::frexp(ratio * lo, &e0);  // results lie in [2^(e0-1), 2^(e0+1))
            const long double bound = std::ldexp(1.0L, e0), u0 = std::ldexp(1.0L, e0 - 1 - 23), u1 = std::ldexp(1.0L, e0 - 23);
            double worst = 0;
            for (uint32_t m = 0; m < (1u << 23); m++) {
              const long double ref = (long double)orig[m] * ratio;
              const long double aref = ref < 0 ? -ref : ref;
              const double err = (double)(std::fabs((long double)buf[m] - ref) / (aref >= bound ? u1 : u0));
              if (err > worst) worst = err;
              if (!(err <= tol)) {
                report(orig[m], buf[m], ref, err);
                break;
              }
            }
            vf::maxf(std::string("max_ulps_all_float_mantissas_") + (hops == 1 ? "one_hop" : "two_hops"), worst);
            vf::stat("float_mantissa_conversions", 1 << 23);
            vf::stat("conversions", 1 << 23);
            vf::stat("nontrivial_conversions", f.number != t.number ? (1 << 23) : 0);
          }
        }
      } else {
        // affine: every float bit pattern, in blocks
        long long done = 0;
        for (uint64_t base = 0; base < (1ULL << 32); base += (1u << 23)) {
          size_t n = 0;
          for (uint32_t k = 0; k < (1u << 23); k++) {
            uint32_t bits = (uint32_t)(base + k);
            float x;
            std::memcpy(&x, &bits, 4);
            if (!std::isnormal(x) && x != 0) continue;
            const long double a1 = af * x;
            if (std::fabs(a1) > 1e37L || std::fabs((a1 + bf - bt) / at) > 1e37L) continue;
            orig[n++] = x;
          }
          std::vector<float> in(orig.begin(), orig.begin() + n);
          std::vector<float> out = in;
          PhQ::ConvertInPlace(out, ef, et);
          for (size_t k = 0; k < n; k++) {
            const long double ref = (af * in[k] + bf - bt) / at;
            long double scale = std::max({std::fabs(ref), (std::fabs(af * in[k]) + std::fabs(bf) + std::fabs(bt)) / at});
            if (scale < 1.17549435e-38L) scale = 1.17549435e-38L;
            int e;
            std::frexp(scale, &e);
            const double err = (double)(std::fabs((long double)out[k] - ref) / std::ldexp(1.0L, e - 24));
            if (!(err <= tol)) {
              report(in[k], out[k], ref, err);
              break;
            }
          }
          done += (long long)n;
        }
        vf::stat("float_bit_pattern_conversions", done);
        vf::stat("conversions", done);
        vf::stat("nontrivial_conversions", f.number != t.number ? done : 0);
      }
      vf::stat("ordered_pairs_float_sweep");
    }
}

int main(int argc, char** argv) {
  if (argc < 4) return 2;
  thorough = std::getenv("VERIF_TIER") && std::string(std::getenv("VERIF_TIER")) == "thorough";
  std::ifstream in(argv[1]);
  std::string type, name, a, b;
  int number;
  while (in >> type >> number >> name >> a >> b)
    if (type == VF_ENAME) U.push_back({number, name, vf::parse_q(a.c_str()), vf::parse_q(b.c_str())});
  const int part = std::atoi(argv[2]), nparts = std::atoi(argv[3]);
  // the factors file must cover exactly the declared enumerators
  const auto& ens = vf::enumerators<E>();
  if (ens.size() != U.size()) {
    std::fprintf(stderr, "factor file covers %zu units, reflection finds %zu\n", U.size(), ens.size());
    return 2;
  }
  if (argc > 4 && std::string(argv[4]) == "floatsweep") {
    float_sweep(part, nparts);
    return 0;
  }
  runtime_pairs<float>(part, nparts);
  runtime_pairs<double>(part, nparts);
  runtime_pairs<long double>(part, nparts);
  {
    StaticFrom<float> a1{part, nparts};
    vf::for_each_enumerator<E>(a1);
    StaticFrom<double> a2{part, nparts};
    vf::for_each_enumerator<E>(a2);
    StaticFrom<long double> a3{part, nparts};
    vf::for_each_enumerator<E>(a3);
  }
  return 0;
}
