// c02_q.cpp - for every selected dimensional quantity type x every unit of its unit type x 3 numeric
// types: all ways of putting a value in and getting it back out agree with the plain scalar
// PhQ::Convert to within one ulp, component by component, in the right slot.
#include <sstream>

#include "probe.hpp"
#include "reflect.hpp"

static bool thorough = false;

template <class T>
double ulpdiff(T a, T b) {
  if (vf::same_bits(a, b) || a == b) return 0;
  if (std::isnan(a) || std::isnan(b)) return INFINITY;
  vf::f128 m = fmaxq(fabsq((vf::f128)a), fabsq((vf::f128)b));
  return (double)(fabsq((vf::f128)a - (vf::f128)b) / vf::ulp_at<T>(m));
}
// numeric tokens of a serialisation, after removing the unit abbreviation
template <class T>
std::vector<T> numbers_in(std::string s, const std::string& abbr) {
  if (!abbr.empty()) {
    auto p = s.rfind(abbr);
    if (p != std::string::npos) s.erase(p, abbr.size());
  }
  std::vector<T> out;
  size_t i = 0;
  while (i < s.size()) {
    const bool d = std::isdigit((unsigned char)s[i]);
    const bool neg = s[i] == '-' && i + 1 < s.size() && std::isdigit((unsigned char)s[i + 1]);
    if (!(d || neg) || (i > 0 && (std::isalpha((unsigned char)s[i - 1]) || s[i - 1] == '_'))) {
      i++;
      continue;
    }
    size_t j = i + 1;
    while (j < s.size()) {
      char c = s[j];
      if (std::isdigit((unsigned char)c) || c == '.') {
        j++;
      } else if ((c == 'e' || c == 'E') && j + 1 < s.size() && (std::isdigit((unsigned char)s[j + 1]) || ((s[j + 1] == '-' || s[j + 1] == '+') && j + 2 < s.size() && std::isdigit((unsigned char)s[j + 2])))) {
        j += 2;
      } else
        break;
    }
    const std::string tok = s.substr(i, j - i);
    if constexpr (std::is_same_v<T, float>) out.push_back(std::strtof(tok.c_str(), nullptr));
    if constexpr (std::is_same_v<T, double>) out.push_back(std::strtod(tok.c_str(), nullptr));
    if constexpr (std::is_same_v<T, long double>) out.push_back(std::strtold(tok.c_str(), nullptr));
    i = j;
  }
  return out;
}

template <class Q, class U, class T, int N>
struct Ctx {
  const char* qname;
  std::string uname;
  void bad(const std::string& form, const std::string& uto, int slot, T got, T want, const T* v) {
    std::string in = "[";
    for (int i = 0; i < N; i++) in += (i ? "," : "") + vf::jstr(vf::hex(v[i]));
    vf::viol(std::string("entry|") + qname + "|" + form + "|" + uname + (uto.empty() ? "" : "->" + uto) + "|" + vf::TName<T>::value,
             std::string("{\"quantity\":") + vf::jstr(qname) + ",\"form\":" + vf::jstr(form) + ",\"unit\":" + vf::jstr(uname) + ",\"target_unit\":" + vf::jstr(uto) + ",\"slot\":" +
                 std::to_string(slot) + ",\"observed\":" + vf::jstr(vf::hex(got)) + ",\"scalar_convert\":" + vf::jstr(vf::hex(want)) + ",\"input\":" + in + "]}");
  }
  // compare N components with the scalar conversion of each input component
  template <class X>
  void cmp(const std::string& form, const std::string& uto, const X& obj, const T* want, const T* v, double tol = 1.0) {
    T got[9];
    vf::comps(obj, got);
    vf::stat("comparisons");
    for (int i = 0; i < N; i++)
      if (!(ulpdiff(got[i], want[i]) <= tol)) {
        bad(form, uto, i, got[i], want[i], v);
        return;
      }
  }
  void cmpnums(const std::string& form, const std::string& uto, const std::vector<T>& got, const T* want, const T* v) {
    // a conversion whose result overflows the numeric type (GW.hr -> neV in float) is outside the property ("does not overflow"):
    // the printed text is then "inf", which carries no number token
    for (int i = 0; i < N; i++)
      if (!std::isfinite(want[i])) {
        vf::stat("skipped_overflowing_conversions");
        return;
      }
    vf::stat("comparisons");
    if ((int)got.size() != N) {
      vf::viol(std::string("entry|") + qname + "|" + form + "|" + uname + "->" + uto + "|" + vf::TName<T>::value + "|token-count",
               "{\"numbers_found\":" + std::to_string(got.size()) + ",\"components\":" + std::to_string(N) + "}");
      return;
    }
    for (int i = 0; i < N; i++)
      if (!(ulpdiff(got[i], want[i]) <= 1.0)) {
        bad(form, uto, i, got[i], want[i], v);
        return;
      }
  }
};

// detection of the Create<u> overloads
template <class Q, class U, U u, class... A>
struct HasCreate {
  template <class X>
  static auto test(int) -> decltype(X::template Create<u>(std::declval<A>()...), std::true_type{});
  template <class>
  static std::false_type test(...);
  static constexpr bool value = decltype(test<Q>(0))::value;
};

template <class Q, class U, class T, int N>
struct PerUnitStatic {
  Ctx<Q, U, T, N>* cx;
  const T* v;
  template <U u>
  void operator()() {
    using V = vf::value_t<Q>;
    cx->uname = std::string(vf::enum_name<U, u>());
    T want[9];
    for (int i = 0; i < N; i++) want[i] = PhQ::Convert(v[i], u, PhQ::Standard<U>);
    const V raw = vf::RawMake<V>::make(v);
    // (iii) compile-time creation, every overload that exists
    if constexpr (HasCreate<Q, U, u, V>::value) cx->cmp("Create<u>(value)", "", Q::template Create<u>(raw), want, v);
    if constexpr (N > 1) {
      std::array<T, N> arr;
      for (int i = 0; i < N; i++) arr[i] = v[i];
      if constexpr (HasCreate<Q, U, u, std::array<T, N>>::value) cx->cmp("Create<u>(array)", "", Q::template Create<u>(arr), want, v);
      if constexpr (N == 2 && HasCreate<Q, U, u, T, T>::value) cx->cmp("Create<u>(x,y)", "", Q::template Create<u>(v[0], v[1]), want, v);
      if constexpr (N == 3 && HasCreate<Q, U, u, T, T, T>::value) cx->cmp("Create<u>(x,y,z)", "", Q::template Create<u>(v[0], v[1], v[2]), want, v);
      if constexpr (N == 6 && HasCreate<Q, U, u, T, T, T, T, T, T>::value)
        cx->cmp("Create<u>(xx..zz)", "", Q::template Create<u>(v[0], v[1], v[2], v[3], v[4], v[5]), want, v);
      if constexpr (N == 9 && HasCreate<Q, U, u, T, T, T, T, T, T, T, T, T>::value)
        cx->cmp("Create<u>(xx..zz)", "", Q::template Create<u>(v[0], v[1], v[2], v[3], v[4], v[5], v[6], v[7], v[8]), want, v);
    }
    // (ii) compile-time value accessor, from an object holding v as its standard-unit value
    const Q std_obj = vf::make<Q>(v);
    T outw[9];
    for (int i = 0; i < N; i++) outw[i] = PhQ::Convert(v[i], PhQ::Standard<U>, u);
    cx->cmp("StaticValue<u>()", "", std_obj.template StaticValue<u>(), outw, v);
    vf::stat("static_unit_instances");
  }
};

struct F {
  template <template <class> class Q>
  void operator()(const char* name) {
    one<Q<float>>(name);
    one<Q<double>>(name);
    one<Q<long double>>(name);
  }
  template <class Q>
  void one(const char* name) {
    if constexpr (vf::HasUnit<Q>::value) {
      using T = vf::num_t<Q>;
      using U = std::decay_t<decltype(Q::Unit())>;
      using V = vf::value_t<Q>;
      constexpr int N = vf::ncomp<Q>;
      const auto& ens = vf::enumerators<U>();
      Ctx<Q, U, T, N> cx{name, ""};
      // per-slot distinct values (Appendix B): +-p_i/8 + 2^-20, i-th odd prime; two sign patterns
      static const int primes[9] = {3, 5, 7, 11, 13, 17, 19, 23, 29};
      // pat 2: zeros of both signs in alternate slots (an affine unit turns a zero into a non-zero number: "zero reads zero in
      // every unit" is false); pat 3: the values of an exactly symmetric tensor
      for (int pat = 0; pat < 4; pat++) {
        T v[9];
        static const int sym[9] = {0, 1, 2, 1, 3, 4, 2, 4, 5};
        for (int i = 0; i < 9; i++) v[i] = (T)(((i + pat) % 2 ? -1 : 1) * (primes[i] / 8.0L + 0x1p-20L));
        if (pat == 2)
          for (int i = 0; i < 9; i += 2) v[i] = (i % 4) ? -(T)0 : (T)0;
        if (pat == 3)
          for (int i = 0; i < 9; i++) v[i] = (T)(primes[sym[i]] / 8.0L + 0x1p-20L);
        PerUnitStatic<Q, U, T, N> st{&cx, v};
        vf::for_each_enumerator<U>(st);
        const V raw = vf::RawMake<V>::make(v);
        for (size_t ui = 0; ui < ens.size(); ui++) {
          const U u = ens[ui].value;
          cx.uname = ens[ui].name;
          T want[9];
          for (int i = 0; i < N; i++) want[i] = PhQ::Convert(v[i], u, PhQ::Standard<U>);
          // (i) construction converts once to the standard unit
          const Q q(raw, u);
          cx.cmp("Q(value,u).Value()", "", q, want, v);
          if constexpr (N == 3 && std::is_constructible_v<Q, T, T, T, U>) cx.cmp("Q(x,y,z,u).Value()", "", Q(v[0], v[1], v[2], u), want, v);
          if constexpr (N == 2 && std::is_constructible_v<Q, T, T, U>) cx.cmp("Q(x,y,u).Value()", "", Q(v[0], v[1], u), want, v);
          if constexpr (N > 1) {
            std::array<T, N> arr;
            for (int i = 0; i < N; i++) arr[i] = v[i];
            if constexpr (std::is_constructible_v<Q, std::array<T, N>, U>) cx.cmp("Q(array,u).Value()", "", Q(arr, u), want, v);
          }
          if constexpr (N == 6 && std::is_constructible_v<Q, T, T, T, T, T, T, U>) cx.cmp("Q(xx..zz,u).Value()", "", Q(v[0], v[1], v[2], v[3], v[4], v[5], u), want, v);
          if constexpr (N == 9 && std::is_constructible_v<Q, T, T, T, T, T, T, T, T, T, U>)
            cx.cmp("Q(xx..zz,u).Value()", "", Q(v[0], v[1], v[2], v[3], v[4], v[5], v[6], v[7], v[8], u), want, v);
          // (iv) read back in the same unit: the original number up to the rounding of two hops
          {
            T back[9];
            vf::comps(q.Value(u), back);
            vf::stat("comparisons");
            for (int i = 0; i < N; i++) {
              // scale: the standard-unit intermediate expressed in u (affine units cancel against their offset)
              vf::f128 sc = fmaxq(fabsq((vf::f128)v[i]), fabsq((vf::f128)PhQ::Convert(std::fabs(want[i]), PhQ::Standard<U>, u)));
              sc = fmaxq(sc, fabsq((vf::f128)PhQ::Convert((T)0, PhQ::Standard<U>, u)));
              if (!((double)(fabsq((vf::f128)back[i] - (vf::f128)v[i]) / vf::ulp_at<T>(sc)) <= 16.0)) {
                cx.bad("Q(value,u).Value(u) round trip", ens[ui].name, i, back[i], v[i], v);
                break;
              }
            }
          }
          // (ii) every way of reading the value out in unit u2
          std::vector<size_t> targets = {ui, (ui + 1) % ens.size()};
          for (size_t k = 0; k < ens.size(); k++)
            if (ens[k].value == PhQ::Standard<U> || thorough) targets.push_back(k);
          T sv[9];
          vf::comps(q, sv);
          for (size_t ti : targets) {
            const U u2 = ens[ti].value;
            const std::string& n2 = ens[ti].name;
            T outw[9];
            for (int i = 0; i < N; i++) outw[i] = PhQ::Convert(sv[i], PhQ::Standard<U>, u2);
            cx.cmp("Value(u2)", n2, q.Value(u2), outw, v);
            {
              // two results alive at once, bound the way a caller may bind them: the first must not change when the second is asked for
              const auto& first = q.Value(u2);
              T f0[9], f1[9];
              vf::comps(first, f0);
              const auto& second = q.Value(ens[(ti + 1) % ens.size()].value);
              (void)second;
              vf::comps(first, f1);
              for (int i = 0; i < N; i++)
                if (!vf::same_bits(f0[i], f1[i])) {
                  cx.bad("Value(u2) held by reference changes when Value(u3) is called", n2, i, f1[i], f0[i], v);
                  break;
                }
            }
            const std::string ab(PhQ::Abbreviation(u2));
            cx.cmpnums("Print(u2)", n2, numbers_in<T>(q.Print(u2), ab), outw, v);
            cx.cmpnums("JSON(u2)", n2, numbers_in<T>(q.JSON(u2), ab), outw, v);
            cx.cmpnums("XML(u2)", n2, numbers_in<T>(q.XML(u2), ab), outw, v);
            cx.cmpnums("YAML(u2)", n2, numbers_in<T>(q.YAML(u2), ab), outw, v);
            vf::stat("unit_pairs");
          }
        }
      }
      vf::stat("quantity_instances");
      if (std::string(name) == "Force" && std::is_same_v<T, double>) {
        const Q q(vf::RawMake<V>::make(std::array<T, 9>{1.5, -2.25, 3.125}.data()), ens.back().value);
        vf::sample(std::string("{\"quantity\":\"Force<double>\",\"constructed_in\":") + vf::jstr(ens.back().name) + ",\"Print(unit)\":" + vf::jstr(q.Print(ens.back().value)) +
                   ",\"JSON()\":" + vf::jstr(q.JSON()) + "}");
      }
    }
  }
};
int main() {
  thorough = std::getenv("VERIF_TIER") && std::string(std::getenv("VERIF_TIER")) == "thorough";
  vf::for_each_selq(F{});
}
