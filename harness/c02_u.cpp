// c02_u.cpp - free conversion functions on containers for ONE unit type: ConvertInPlace / Convert on
// scalar, std::array<T,N>, std::vector<T>, PlanarVector, Vector, SymmetricDyad, Dyad, and
// ConvertStatically on the array/vector/tensor forms: every component equals the scalar conversion
// of that component (<= 1 ulp) in its own slot; copying forms leave their argument unchanged;
// in-place == copying; unit to itself is the identity (bitwise for the standard unit).
//   -DVF_HDR=... -DVF_E=... -DVF_ENAME=...
#include VF_HDR

#include "probe.hpp"
#include "reflect.hpp"
using E = VF_E;
static bool thorough = false;

template <class T>
double ulpdiff(T a, T b) {
  if (vf::same_bits(a, b) || a == b) return 0;
  if (std::isnan(a) || std::isnan(b)) return INFINITY;
  vf::f128 m = fmaxq(fabsq((vf::f128)a), fabsq((vf::f128)b));
  return (double)(fabsq((vf::f128)a - (vf::f128)b) / vf::ulp_at<T>(m));
}
static const int primes[17] = {3, 5, 7, 11, 13, 17, 19, 23, 29, 31, 37, 41, 43, 47, 53, 59, 61};
template <class T>
T val(int i, int pat) {
  return (T)(((i + pat) % 2 ? -1 : 1) * (primes[i % 17] / 8.0L + 0x1p-20L + (i / 17) * 7.0L));
}

template <class T>
struct Pair {
  std::string from, to;
  E f, t;
  void fail(const std::string& form, int slot, int n, T got, T want) {
    vf::viol(std::string("container|") + VF_ENAME + "|" + form + "|" + from + "->" + to + "|" + vf::TName<T>::value,
             std::string("{\"unit_type\":") + vf::jstr(VF_ENAME) + ",\"form\":" + vf::jstr(form) + ",\"from\":" + vf::jstr(from) + ",\"to\":" + vf::jstr(to) + ",\"slot\":" +
                 std::to_string(slot) + ",\"of\":" + std::to_string(n) + ",\"observed\":" + vf::jstr(vf::hex(got)) + ",\"scalar_convert\":" + vf::jstr(vf::hex(want)) + "}");
  }
  // C: container type; get(c, i), size; copying Convert, in-place ConvertInPlace
  template <class C, class MK, class GET>
  void container(const std::string& form, int n, MK&& mk, GET&& get) {
    for (int pat = 0; pat < 5; pat++) {
      std::vector<T> in(n), want(n);
      // pat 0, 1: pairwise distinct slot values; pat 2: the values of an exactly symmetric tensor (slots (i,j) and (j,i) equal, the
      // six independent ones distinct) - a structure-dependent shortcut inside a tensor conversion is met here
      static const int sym[9] = {0, 1, 2, 1, 3, 4, 2, 4, 5};
      for (int i = 0; i < n; i++) {
        in[i] = pat < 2 ? val<T>(i, pat) : val<T>(sym[i % 9] + 9 * (i / 9), 1);
        // pat 3, 4: chains - every element is what its predecessor converts to (forwards, resp. backwards), restarted every third
        // element: a value that coincides with a neighbour's converted value must still be converted itself
        if (pat >= 3 && i % 3 != 0) {
          const T c = pat == 3 ? PhQ::Convert(in[i - 1], f, t) : PhQ::Convert(in[i - 1], t, f);
          in[i] = std::isfinite(c) && c != 0 ? c : in[i];
        } else if (pat >= 3) {
          in[i] = val<T>(i, 0);
        }
        want[i] = PhQ::Convert(in[i], f, t);
      }
      const C orig = mk(in);
      C arg = mk(in);
      const C out = PhQ::Convert(arg, f, t);
      vf::stat("container_conversions");
      for (int i = 0; i < n; i++) {
        if (!vf::same_bits(get(arg, i), in[i])) {
          fail(form + " copying form modified its argument", i, n, get(arg, i), in[i]);
          break;
        }
        if (!(ulpdiff(get(out, i), want[i]) <= 1.0)) {
          fail(form + " Convert", i, n, get(out, i), want[i]);
          break;
        }
      }
      C ip = mk(in);
      PhQ::ConvertInPlace(ip, f, t);
      for (int i = 0; i < n; i++)
        if (!vf::same_bits(get(ip, i), get(out, i))) {
          fail(form + " ConvertInPlace differs from Convert", i, n, get(ip, i), get(out, i));
          break;
        }
      if (f == t) {
        for (int i = 0; i < n; i++) {
          // identity up to the rounding of the two hops; for the affine units the rounding happens at the magnitude of
          // the zero offset (273.15 for degrees Celsius), which is therefore part of the scale
          const vf::f128 sc = fmaxq(fabsq((vf::f128)in[i]), fabsq((vf::f128)PhQ::Convert((T)0, PhQ::Standard<E>, f)));
          const bool ok = (f == PhQ::Standard<E>) ? vf::same_bits(get(out, i), in[i])
                                                  : (double)(fabsq((vf::f128)get(out, i) - (vf::f128)in[i]) / vf::ulp_at<T>(sc)) <= 16.0;
          if (!ok) {
            fail(form + " unit to itself is not the identity", i, n, get(out, i), in[i]);
            break;
          }
        }
      }
    }
  }
  // light: the small forms only (every ordered unit pair gets these in the quick tier; the large containers go with the quick pairs)
  void run(bool light = false) {
    using namespace PhQ;
    container<T>("scalar", 1, [](const std::vector<T>& v) { return v[0]; }, [](const T& c, int) { return c; });
    container<std::array<T, 1>>("array<1>", 1, [](const std::vector<T>& v) { return std::array<T, 1>{v[0]}; }, [](const std::array<T, 1>& c, int i) { return c[i]; });
    container<std::array<T, 2>>("array<2>", 2, [](const std::vector<T>& v) { return std::array<T, 2>{v[0], v[1]}; }, [](const std::array<T, 2>& c, int i) { return c[i]; });
    container<std::array<T, 3>>("array<3>", 3, [](const std::vector<T>& v) { return std::array<T, 3>{v[0], v[1], v[2]}; }, [](const std::array<T, 3>& c, int i) { return c[i]; });
    container<std::array<T, 6>>(
        "array<6>", 6, [](const std::vector<T>& v) { return std::array<T, 6>{v[0], v[1], v[2], v[3], v[4], v[5]}; }, [](const std::array<T, 6>& c, int i) { return c[i]; });
    container<std::array<T, 9>>(
        "array<9>", 9, [](const std::vector<T>& v) { return std::array<T, 9>{v[0], v[1], v[2], v[3], v[4], v[5], v[6], v[7], v[8]}; },
        [](const std::array<T, 9>& c, int i) { return c[i]; });
    if (!light) container<std::array<T, 17>>(
        "array<17>", 17,
        [](const std::vector<T>& v) {
          std::array<T, 17> a;
          for (int i = 0; i < 17; i++) a[i] = v[i];
          return a;
        },
        [](const std::array<T, 17>& c, int i) { return c[i]; });
    for (int n : {0, 1, 5, 64, 1000, 1024, 1025, 2500, 4096})  // incl. exact multiples of plausible block sizes and sizes just beyond them
      if (!light || n <= 5) {
        container<std::vector<T>>("vector<" + std::to_string(n) + ">", n, [](const std::vector<T>& v) { return v; }, [](const std::vector<T>& c, int i) { return c[i]; });
        // the same with spare capacity behind the last element (reserve): only the size() elements are the container's values
        if (n <= 64)
          container<std::vector<T>>(
              "vector<" + std::to_string(n) + "> with spare capacity", n,
              [](const std::vector<T>& v) {
                std::vector<T> w;
                w.reserve(2 * v.size() + 8);
                for (T x : v) w.push_back(x);
                return w;
              },
              [](const std::vector<T>& c, int i) { return c[i]; });
      }
    container<PlanarVector<T>>("PlanarVector", 2, [](const std::vector<T>& v) { return PlanarVector<T>(v[0], v[1]); }, [](const PlanarVector<T>& c, int i) { return c.x_y()[i]; });
    container<Vector<T>>("Vector", 3, [](const std::vector<T>& v) { return Vector<T>(v[0], v[1], v[2]); }, [](const Vector<T>& c, int i) { return c.x_y_z()[i]; });
    container<SymmetricDyad<T>>(
        "SymmetricDyad", 6, [](const std::vector<T>& v) { return SymmetricDyad<T>(v[0], v[1], v[2], v[3], v[4], v[5]); },
        [](const SymmetricDyad<T>& c, int i) { return c.xx_xy_xz_yy_yz_zz()[i]; });
    container<Dyad<T>>(
        "Dyad", 9, [](const std::vector<T>& v) { return Dyad<T>(v[0], v[1], v[2], v[3], v[4], v[5], v[6], v[7], v[8]); },
        [](const Dyad<T>& c, int i) { return c.xx_xy_xz_yx_yy_yz_zx_zy_zz()[i]; });
    vf::stat("unit_pairs");
  }
};

// compile-time forms on containers, for (u, standard), (standard, u) and (u, u)
template <class T, E From, E To>
void static_forms(const std::string& from, const std::string& to) {
  using namespace PhQ;
  Pair<T> p{from, to, From, To};
  for (int pat = 0; pat < 2; pat++) {
    T in[9], want[9];
    for (int i = 0; i < 9; i++) {
      in[i] = val<T>(i, pat);
      want[i] = PhQ::Convert(in[i], From, To);
    }
    auto chk = [&](const std::string& form, const auto& out, int n) {
      T got[9];
      vf::comps(out, got);
      vf::stat("container_conversions");
      for (int i = 0; i < n; i++)
        if (!(ulpdiff(got[i], want[i]) <= 1.0)) {
          p.fail(form, i, n, got[i], want[i]);
          return;
        }
    };
    chk("ConvertStatically scalar", ConvertStatically<E, From, To>(in[0]), 1);
    {
      const std::array<T, 3> a{in[0], in[1], in[2]};
      const auto r = ConvertStatically<E, From, To, 3, T>(a);
      chk("ConvertStatically array<3>", Vector<T>(r), 3);
      const std::array<T, 9> b{in[0], in[1], in[2], in[3], in[4], in[5], in[6], in[7], in[8]};
      chk("ConvertStatically array<9>", Dyad<T>(ConvertStatically<E, From, To, 9, T>(b)), 9);
      // other lengths: every slot of the result is the scalar conversion of the same slot
      {
        std::array<T, 17> c;
        T w17[17];
        for (int i = 0; i < 17; i++) {
          c[i] = val<T>(i, pat);
          w17[i] = PhQ::Convert(c[i], From, To);
        }
        const auto r17 = ConvertStatically<E, From, To, 17, T>(c);
        const auto r4 = ConvertStatically<E, From, To, 4, T>(std::array<T, 4>{c[0], c[1], c[2], c[3]});
        const auto r1 = ConvertStatically<E, From, To, 1, T>(std::array<T, 1>{c[0]});
        vf::stat("container_conversions", 3);
        for (int i = 0; i < 17; i++)
          if (!(ulpdiff(r17[i], w17[i]) <= 1.0) || (i < 4 && !(ulpdiff(r4[i], w17[i]) <= 1.0)) || (i < 1 && !(ulpdiff(r1[i], w17[i]) <= 1.0))) {
            p.fail("ConvertStatically array<17/4/1>", i, 17, r17[i], w17[i]);
            break;
          }
      }
    }
    chk("ConvertStatically PlanarVector", ConvertStatically<E, From, To>(PlanarVector<T>(in[0], in[1])), 2);
    chk("ConvertStatically Vector", ConvertStatically<E, From, To>(Vector<T>(in[0], in[1], in[2])), 3);
    chk("ConvertStatically SymmetricDyad", ConvertStatically<E, From, To>(SymmetricDyad<T>(in[0], in[1], in[2], in[3], in[4], in[5])), 6);
    chk("ConvertStatically Dyad", ConvertStatically<E, From, To>(Dyad<T>(in[0], in[1], in[2], in[3], in[4], in[5], in[6], in[7], in[8])), 9);
  }
}
template <class T>
struct StaticSweep {
  template <E u>
  void operator()() {
    const std::string n(vf::enum_name<E, u>()), s(vf::enum_name<E, PhQ::Standard<E>>());
    static_forms<T, u, PhQ::Standard<E>>(n, s);
    static_forms<T, PhQ::Standard<E>, u>(s, n);
    static_forms<T, u, u>(n, n);
    vf::stat("static_unit_instances");
  }
};

template <class T>
void all(int part, int nparts) {
  const auto& ens = vf::enumerators<E>();
  long idx = 0;
  for (size_t i = 0; i < ens.size(); i++)
    for (size_t j = 0; j < ens.size(); j++) {
      const bool quick_pair = j == i || j == (i + 1) % ens.size() || ens[j].value == PhQ::Standard<E> || ens[i].value == PhQ::Standard<E>;
      if ((idx++ % nparts) != part) continue;
      Pair<T> p{ens[i].name, ens[j].name, ens[i].value, ens[j].value};
      p.run(!thorough && !quick_pair);
    }
  if (part == 0) {
    StaticSweep<T> s;
    vf::for_each_enumerator<E>(s);
  }
}
int main(int argc, char** argv) {
  thorough = std::getenv("VERIF_TIER") && std::string(std::getenv("VERIF_TIER")) == "thorough";
  const int part = argc > 1 ? std::atoi(argv[1]) : 0, nparts = argc > 2 ? std::atoi(argv[2]) : 1;
  all<float>(part, nparts);
  all<double>(part, nparts);
  all<long double>(part, nparts);
  if (part == 0 && std::string(VF_ENAME) == "Length")
    vf::sample("{\"unit_type\":\"Length\",\"form\":\"Convert(Dyad)\",\"from\":\"Mile\",\"to\":\"Kilometre\",\"slots\":9}");
  return 0;
}
