// c04_hist.hpp - compound assignments in any interleaving leave the same value as the corresponding
// chain of pure operators and as plain-number arithmetic on the stored values: breadth-first search
// with state hashing over operation histories on the real object. Also the std:: math overloads of
// dimensionless scalars. Included by generated TUs (one `history<Q>` call per quantity type with
// its discovered compound-assignment operand types).
#pragma once
#include <deque>
#include <functional>
#include <unordered_set>

#include "rel_check.hpp"

namespace hist {
using rel::numof;
template <class Q, class = void>
struct HasMutableValueQ : std::false_type {};
template <class Q>
struct HasMutableValueQ<Q, std::void_t<decltype(std::declval<Q&>().MutableValue())>> : std::true_type {};
static int DEPTH = 4;

template <class Q>
struct Op {
  std::string name;
  std::function<void(Q&)> compound;                        // q op= operand
  std::function<bool(const Q&, Q&)> pure;                  // q2 = q op operand (false if no such pure operator returning Q)
  std::function<void(numof<Q>*, int)> model;               // plain numbers
};

template <class Q>
struct Explorer {
  using T = numof<Q>;
  static constexpr int N = vf::count_of<Q>();
  std::vector<Op<Q>> ops;
  const char* qname;
  void run() {
    struct Node {
      std::array<T, 9> r;
      int depth;
      std::string path;
    };
    std::unordered_set<uint64_t> seen;
    std::deque<Node> fr;
    Node init;
    for (int i = 0; i < 9; i++) init.r[i] = (T)((0.8125L + 0.4375L * i) * (4.0L / 3.0L)) * (i % 2 ? -1 : 1);
    init.depth = 0;
    auto key = [](const std::array<T, 9>& r) {
      uint64_t h = 1469598103934665603ULL;
      for (int i = 0; i < N; i++) h = vf::hbits(r[i], h);
      return h;
    };
    // the state is the stored value as the object reports it (directions would normalise; they have no compound assignments)
    {
      const Q q0 = rel::rebuild<Q>(init.r.data());
      vf::comps(q0, init.r.data());
    }
    fr.push_back(init);
    seen.insert(key(init.r));
    long long states = 1, transitions = 0;
    const std::string tag = std::string(qname) + "|" + vf::TName<T>::value;
    while (!fr.empty()) {
      Node nd = fr.front();
      fr.pop_front();
      if (nd.depth >= DEPTH) continue;
      for (const auto& op : ops) {
        Q q = rel::rebuild<Q>(nd.r.data());
        const Q before = q;
        op.compound(q);
        T got[9];
        vf::comps(q, got);
        std::array<T, 9> model = nd.r;
        // an operation without a plain-number model (a number operand of another numeric type: the statement does not say in
        // which type the arithmetic happens) is judged by compound == pure operator alone
        if (op.model)
          op.model(model.data(), N);
        else
          for (int i = 0; i < N; i++) model[i] = got[i];
        transitions++;
        bool finite = true;
        for (int i = 0; i < N; i++) finite = finite && std::isfinite(model[i]);
        if (!finite) continue;
        bool ok = true;
        for (int i = 0; i < N; i++) ok = ok && vf::same_bits(got[i], model[i]);
        Q viapure = before;
        const bool haspure = op.pure(before, viapure);
        T gp[9];
        if (haspure) {
          vf::comps(viapure, gp);
          for (int i = 0; i < N; i++) ok = ok && vf::same_bits(gp[i], got[i]);
        }
        if (!ok) {
          vf::viol("history|" + tag + "|" + op.name, "{\"type\":" + vf::jstr(qname) + ",\"history\":" + vf::jstr(nd.path + " " + op.name) + ",\"before\":" + rel::show(before) +
                                                        ",\"after_compound\":" + rel::show(q) + (haspure ? ",\"after_pure_operator\":" + rel::show(viapure) : std::string()) + "}");
          return;
        }
        std::array<T, 9> nr = nd.r;
        for (int i = 0; i < N; i++) nr[i] = got[i];
        if (seen.insert(key(nr)).second) {
          states++;
          fr.push_back({nr, nd.depth + 1, nd.path + " " + op.name});
        }
      }
    }
    vf::stat("states", states);
    vf::stat("transitions", transitions);
    vf::stat("history_type_instances");
    if (std::string(qname) == "Speed" && std::is_same_v<T, double>)
      vf::sample("{\"type\":\"Speed<double>\",\"operations\":" + std::to_string(ops.size()) + ",\"depth\":" + std::to_string(DEPTH) + ",\"states\":" + std::to_string(states) +
                 ",\"transitions\":" + std::to_string(transitions) + ",\"example_history\":\"+= q1, *= k2, -= q3, /= k1\"}");
  }
};

// operand values
template <class B>
B operand_q(int k) {
  return rel::operand<B>(1, k == 0 ? 0 : (k == 1 ? 3 : 2));
}
template <class T>
T number(int k) {
  const long double v[3] = {1.5L * (1 + 0x1p-60L), -0.3L, 7.0L / 3};
  return (T)v[k];
}

// registration helpers (called from generated code)
template <class Q, class B>
void add_plus_minus(Explorer<Q>& ex, const char* bname, bool plus) {
  using T = numof<Q>;
  for (int k = 0; k < 3; k++) {
    const B b = operand_q<B>(k);
    Op<Q> op;
    op.name = std::string(plus ? "+=" : "-=") + bname + "#" + std::to_string(k);
    op.compound = [b, plus](Q& q) {
      if (plus) q += b; else q -= b;
    };
    op.pure = [b, plus](const Q& q, Q& out) {
      if constexpr (std::is_same_v<std::decay_t<decltype(q + b)>, Q> && std::is_same_v<std::decay_t<decltype(q - b)>, Q>) {
        out = plus ? (q + b) : (q - b);
        return true;
      } else {
        return false;
      }
    };
    op.model = [b, plus](T* c, int n) {
      T bc[9];
      vf::comps(b, bc);
      for (int i = 0; i < n; i++) c[i] = plus ? c[i] + bc[i] : c[i] - bc[i];
    };
    ex.ops.push_back(op);
  }
}
template <class Q>
void add_times_divide(Explorer<Q>& ex, bool times) {
  using T = numof<Q>;
  for (int k = 0; k < 3; k++) {
    const T x = number<T>(k);
    Op<Q> op;
    op.name = std::string(times ? "*=" : "/=") + "number#" + std::to_string(k);
    op.compound = [x, times](Q& q) {
      if (times) q *= x; else q /= x;
    };
    op.pure = [x, times](const Q& q, Q& out) {
      if constexpr (std::is_same_v<std::decay_t<decltype(q * x)>, Q> && std::is_same_v<std::decay_t<decltype(q / x)>, Q>) {
        out = times ? (q * x) : (q / x);
        return true;
      } else {
        return false;
      }
    };
    op.model = [x, times](T* c, int n) {
      for (int i = 0; i < n; i++) c[i] = times ? c[i] * x : c[i] / x;
    };
    ex.ops.push_back(op);
  }
}

// scaling by a plain number of ANOTHER arithmetic type (a double for a float object, a long double for a double object, an
// int): whatever conversion the library applies, x *= n and x = x * n (x /= n and x = x / n) must leave the same value
template <class Q, class N2>
void add_times_divide_other_type(Explorer<Q>& ex, const char* tname, N2 x) {
  for (int times = 0; times < 2; times++) {
    Op<Q> op;
    op.name = std::string(times ? "*=" : "/=") + tname;
    op.compound = [x, times](Q& q) {
      if (times) q *= x; else q /= x;
    };
    op.pure = [x, times](const Q& q, Q& out) {
      if constexpr (std::is_same_v<std::decay_t<decltype(q * x)>, Q> && std::is_same_v<std::decay_t<decltype(q / x)>, Q>) {
        out = times ? (q * x) : (q / x);
        return true;
      } else {
        return false;
      }
    };
    ex.ops.push_back(op);
  }
}
template <class Q>
void add_other_number_types(Explorer<Q>& ex) {
  using T = numof<Q>;
  if constexpr (!std::is_same_v<T, float>) add_times_divide_other_type<Q, float>(ex, "float 1.1f", 1.1f);
  if constexpr (!std::is_same_v<T, double>) add_times_divide_other_type<Q, double>(ex, "double 0.3", 0.3);
  if constexpr (!std::is_same_v<T, long double>) add_times_divide_other_type<Q, long double>(ex, "long double 1/7", 1.0L / 7);
  add_times_divide_other_type<Q, int>(ex, "int 3", 3);
}

// operands that alias the object itself: q += q, q -= q, and scaling by a reference to the object's own first component
template <class Q>
void add_aliasing(Explorer<Q>& ex, bool has_plus, bool has_times) {
  using T = numof<Q>;
  if (has_plus) {
    Op<Q> a;
    a.name = "+=self";
    a.compound = [](Q& q) { q += q; };
    a.pure = [](const Q& q, Q& out) {
      if constexpr (std::is_same_v<std::decay_t<decltype(q + q)>, Q>) {
        out = q + q;
        return true;
      } else {
        return false;
      }
    };
    a.model = [](T* c, int n) {
      for (int i = 0; i < n; i++) c[i] = c[i] + c[i];
    };
    ex.ops.push_back(a);
    Op<Q> b;
    b.name = "-=self";
    b.compound = [](Q& q) { q -= q; };
    b.pure = [](const Q& q, Q& out) {
      if constexpr (std::is_same_v<std::decay_t<decltype(q - q)>, Q>) {
        out = q - q;
        return true;
      } else {
        return false;
      }
    };
    b.model = [](T* c, int n) {
      for (int i = 0; i < n; i++) c[i] = c[i] - c[i];
    };
    ex.ops.push_back(b);
  }
  if (has_times) {
    for (int which = 0; which < 2; which++) {
      Op<Q> m;
      m.name = which ? "/=own-first-component(by reference)" : "*=own-first-component(by reference)";
      m.compound = [which](Q& q) {
        // a reference into the object's own storage (for quantities through MutableValue())
        const T* first = nullptr;
        auto& raw = [&]() -> auto& {
          if constexpr (rel::IsQuantity<Q>::value)
            return q.MutableValue();
          else
            return q;
        }();
        using R = std::decay_t<decltype(raw)>;
        if constexpr (std::is_floating_point_v<R>) {
          first = &raw;
        } else if constexpr (vf::Shape<R>::n == 2) {
          first = &raw.Mutable_x_y()[0];
        } else if constexpr (vf::Shape<R>::n == 3) {
          first = &raw.Mutable_x_y_z()[0];
        } else if constexpr (vf::Shape<R>::n == 6) {
          first = &raw.Mutable_xx_xy_xz_yy_yz_zz()[0];
        } else {
          first = &raw.Mutable_xx_xy_xz_yx_yy_yz_zx_zy_zz()[0];
        }
        if (which) q /= *first; else q *= *first;
      };
      m.pure = [](const Q&, Q&) { return false; };
      m.model = [which](T* c, int n) {
        const T k = c[0];
        for (int i = 0; i < n; i++) c[i] = which ? c[i] / k : c[i] * k;
      };
      ex.ops.push_back(m);
    }
  }
}

// std:: overloads on dimensionless scalars: exactly that function of the stored number
#define HIST_MATH1(FN)                                                                                       \
  template <class Q, class = void>                                                                           \
  struct Has_##FN : std::false_type {};                                                                      \
  template <class Q>                                                                                         \
  struct Has_##FN<Q, std::void_t<decltype(std::FN(std::declval<const Q&>()))>> : std::true_type {};         \
  template <class Q>                                                                                         \
  void math_##FN(const char* qname) {                                                                        \
    using T = numof<Q>;                                                                                      \
    if constexpr (Has_##FN<Q>::value) {                                                                      \
      for (long double v : {0.0L, -0.0L, 0.5L, 1.0L, 2.25L, 9.0L, 1e-3L, 123.456L, -0.5L, -8.0L, (long double)INFINITY, -(long double)INFINITY, 1e-4940L, -1e-4940L}) { \
        const T x = (T)v;                                                                                    \
        const Q q = rel::rebuild<Q>(&x);                                                                     \
        const T got = std::FN(q), want = std::FN(q.Value());                                                 \
        vf::stat("math_evaluations");                                                                        \
        if (!vf::same_bits(got, want))                                                                       \
          vf::viol(std::string("math|") + qname + "|" #FN "|" + vf::TName<T>::value,                        \
                   std::string("{\"x\":") + vf::jstr(vf::hex(x)) + ",\"observed\":" + vf::jstr(vf::hex(got)) + ",\"expected\":" + vf::jstr(vf::hex(want)) + "}"); \
      }                                                                                                      \
      vf::setadd("math_overloads", std::string(qname) + "." #FN);                                           \
    }                                                                                                        \
  }
HIST_MATH1(abs)
HIST_MATH1(sqrt)
HIST_MATH1(cbrt)
HIST_MATH1(exp)
HIST_MATH1(log)
HIST_MATH1(log2)
HIST_MATH1(log10)
template <class Q, class Ex, class = void>
struct HasPow : std::false_type {};
template <class Q, class Ex>
struct HasPow<Q, Ex, std::void_t<decltype(std::pow(std::declval<const Q&>(), std::declval<Ex>()))>> : std::true_type {};
template <class Q>
void math_all(const char* qname) {
  using T = numof<Q>;
  if constexpr (vf::count_of<Q>() == 1 && !vf::HasUnit<Q>::value) {
    math_abs<Q>(qname);
    math_sqrt<Q>(qname);
    math_cbrt<Q>(qname);
    math_exp<Q>(qname);
    math_log<Q>(qname);
    math_log2<Q>(qname);
    math_log10<Q>(qname);
    if constexpr (HasPow<Q, int>::value && HasPow<Q, T>::value) {
      for (long double v : {0.5L, 2.25L, 9.0L, 123.456L, -2.0L}) {
        const T x = (T)v;
        const Q q = rel::rebuild<Q>(&x);
        for (int e : {-2, 0, 1, 3}) {
          vf::stat("math_evaluations");
          if (!vf::same_bits((T)std::pow(q, e), (T)std::pow(q.Value(), e))) vf::viol(std::string("math|") + qname + "|pow(int)|" + vf::TName<T>::value, "{\"x\":" + vf::jstr(vf::hex(x)) + "}");
        }
        for (T e : {(T)0.5, (T)-1.25, (T)2}) {
          vf::stat("math_evaluations");
          if (!vf::same_bits((T)std::pow(q, e), (T)std::pow(q.Value(), e))) vf::viol(std::string("math|") + qname + "|pow(real)|" + vf::TName<T>::value, "{\"x\":" + vf::jstr(vf::hex(x)) + "}");
        }
        // exponents of the other floating-point types (not representable in a narrower one): still exactly std::pow of the
        // stored number and that exponent
        auto other = [&](auto e, const char* et) {
          if constexpr (HasPow<Q, decltype(e)>::value) {
            vf::stat("math_evaluations");
            if (!vf::same_bits((T)std::pow(q, e), (T)std::pow(q.Value(), e)))
              vf::viol(std::string("math|") + qname + "|pow(" + et + " exponent)|" + vf::TName<T>::value, "{\"x\":" + vf::jstr(vf::hex(x)) + "}");
          }
        };
        if (x > 0) {
          other(0.3f, "float");
          other(1.0 / 3.0, "double");
          other(1.0L / 3.0L, "long double");
          other(-1.7, "double");
        }
      }
      vf::setadd("math_overloads", std::string(qname) + ".pow");
    }
  }
}
}  // namespace hist
