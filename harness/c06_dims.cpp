// c06_dims.cpp - Dimensions: printing, ordering, equality, hash - exhaustive over exponent boxes.
#include <PhQ/Dimensions.hpp>

#include <set>
#include <unordered_set>

#include "vf.hpp"

using PhQ::Dimensions;
namespace D = PhQ::Dimension;
static const char* ABB[7] = {"T", "L", "M", "I", "Θ", "N", "J"};  // order and symbols from the property text

static Dimensions mk(const int* e) {
  return Dimensions(D::Time{(int8_t)e[0]}, D::Length{(int8_t)e[1]}, D::Mass{(int8_t)e[2]},
                    D::ElectricCurrent{(int8_t)e[3]}, D::Temperature{(int8_t)e[4]},
                    D::SubstanceAmount{(int8_t)e[5]}, D::LuminousIntensity{(int8_t)e[6]});
}
static std::string one_ref(const char* ab, int v) {
  if (v == 0) return "";
  std::string s = ab;
  if (v > 1) s += "^" + std::to_string(v);
  if (v < 0) s += "^(" + std::to_string(v) + ")";
  return s;
}
static std::string ref_print(const int* e) {
  std::string s;
  for (int i = 0; i < 7; i++) {
    std::string p = one_ref(ABB[i], e[i]);
    if (p.empty()) continue;
    if (!s.empty()) s += "·";
    s += p;
  }
  return s.empty() ? "1" : s;
}
static std::string snake(std::string_view l) {
  std::string r(l);
  for (auto& c : r) c = c == ' ' ? '_' : (char)std::tolower((unsigned char)c);
  return r;
}
static std::string tup(const int* e) {
  std::string s = "[";
  for (int i = 0; i < 7; i++) s += (i ? "," : "") + std::to_string(e[i]);
  return s + "]";
}
static int lex(const int* a, const int* b) {
  for (int i = 0; i < 7; i++)
    if (a[i] != b[i]) return a[i] < b[i] ? -1 : 1;
  return 0;
}
static void check_pair(const int* a, const int* b) {
  const Dimensions x = mk(a), y = mk(b);
  const int c = lex(a, b);
  vf::stat("ordered_pairs");
  bool ok = (x == y) == (c == 0) && (x != y) == (c != 0) && (x < y) == (c < 0) && (x > y) == (c > 0) &&
            (x <= y) == (c <= 0) && (x >= y) == (c >= 0);
  if (c == 0 && std::hash<Dimensions>()(x) != std::hash<Dimensions>()(y)) ok = false;
  if (!ok)
    vf::viol("dims-order|" + tup(a) + "|" + tup(b),
             "{\"a\":" + tup(a) + ",\"b\":" + tup(b) + ",\"lexicographic\":" + std::to_string(c) + ",\"eq\":" +
                 std::to_string(x == y) + ",\"ne\":" + std::to_string(x != y) + ",\"lt\":" + std::to_string(x < y) +
                 ",\"gt\":" + std::to_string(x > y) + ",\"le\":" + std::to_string(x <= y) + ",\"ge\":" +
                 std::to_string(x >= y) + "}");
}

template <class X>
static void single_class(const char* ab, const char* cname) {
  for (int v = -128; v <= 127; v++) {
    X x{(int8_t)v};
    vf::stat("single_dimension_values");
    if (x.Value() != v || x.Print() != one_ref(ab, v))
      vf::viol(std::string("dimension-print|") + cname + "|" + std::to_string(v),
               "{\"printed\":" + vf::jstr(x.Print()) + ",\"expected\":" + vf::jstr(one_ref(ab, v)) + "}");
    for (int w = -128; w <= 127; w++) {
      X y{(int8_t)w};
      vf::stat("single_dimension_pairs");
      bool ok = (x == y) == (v == w) && (x != y) == (v != w) && (x < y) == (v < w) && (x > y) == (v > w) &&
                (x <= y) == (v <= w) && (x >= y) == (v >= w);
      if (v == w && std::hash<X>()(x) != std::hash<X>()(y)) ok = false;
      if (!ok) vf::viol(std::string("dimension-order|") + cname + "|" + std::to_string(v) + "|" + std::to_string(w), "{}");
    }
  }
}

int main() {
  // labels are taken from the library (a rename is not a violation); they must be distinct
  const std::string lab[7] = {snake(D::Time::Label()), snake(D::Length::Label()), snake(D::Mass::Label()),
                              snake(D::ElectricCurrent::Label()), snake(D::Temperature::Label()),
                              snake(D::SubstanceAmount::Label()), snake(D::LuminousIntensity::Label())};
  {
    std::set<std::string> u(lab, lab + 7);
    if (u.size() != 7 || u.count("")) vf::viol("dimension-labels", "{\"what\":\"labels empty or not distinct\"}");
  }
  // (1) printing: all tuples of [-3,3]^7
  int e[7];
  long long n = 0, nontriv = 0;
  for (long long k = 0; k < 823543; k++) {
    long long r = k;
    int nz = 0;
    for (int i = 0; i < 7; i++) {
      e[i] = (int)(r % 7) - 3;
      r /= 7;
      nz += e[i] != 0;
    }
    const Dimensions d = mk(e);
    n++;
    nontriv += nz >= 2;
    std::string p = d.Print(), want = ref_print(e);
    std::ostringstream os;
    os << d;
    if (p != want || os.str() != p)
      vf::viol("dims-print|" + tup(e), "{\"exponents\":" + tup(e) + ",\"printed\":" + vf::jstr(p) + ",\"streamed\":" +
                                           vf::jstr(os.str()) + ",\"expected\":" + vf::jstr(want) + "}");
    // JSON / XML / YAML: exactly the non-zero exponents, in declared order, labelled
    std::string j = "{", x, y = "{";
    bool first = true;
    for (int i = 0; i < 7; i++)
      if (e[i] != 0) {
        j += std::string(first ? "" : ",") + "\"" + lab[i] + "\":" + std::to_string(e[i]);
        y += std::string(first ? "" : ",") + lab[i] + ":" + std::to_string(e[i]);
        x += "<" + lab[i] + ">" + std::to_string(e[i]) + "</" + lab[i] + ">";
        first = false;
      }
    j += "}";
    y += "}";
    if (d.JSON() != j || d.XML() != x || d.YAML() != y)
      vf::viol("dims-serialise|" + tup(e), "{\"exponents\":" + tup(e) + ",\"json\":" + vf::jstr(d.JSON()) + ",\"xml\":" +
                                               vf::jstr(d.XML()) + ",\"yaml\":" + vf::jstr(d.YAML()) + ",\"expected_json\":" + vf::jstr(j) + "}");
    if (k == 411771 + 5) vf::sample("{\"exponents\":" + tup(e) + ",\"printed\":" + vf::jstr(p) + ",\"json\":" + vf::jstr(d.JSON()) + "}");
    if (k == 123456) vf::sample("{\"exponents\":" + tup(e) + ",\"printed\":" + vf::jstr(p) + "}");
  }
  vf::stat("printed_tuples", n);
  vf::stat("printed_tuples_two_or_more_nonzero", nontriv);
  // (2) ordering: all ordered pairs over [-1,1]^7, plus extreme tuples
  std::vector<std::array<int, 7>> S;
  for (int k = 0; k < 2187; k++) {
    std::array<int, 7> a;
    int r = k;
    for (int i = 0; i < 7; i++) {
      a[i] = r % 3 - 1;
      r /= 3;
    }
    S.push_back(a);
  }
  for (auto& a : S)
    for (auto& b : S) check_pair(a.data(), b.data());
  std::vector<std::array<int, 7>> X;
  const int ext[] = {-128, -127, -2, 0, 2, 126, 127};
  for (int i = 0; i < 7; i++)
    for (int v : ext)
      for (int w : ext) {
        std::array<int, 7> a{};
        a[i] = v;
        a[(i + 1) % 7] = w;
        X.push_back(a);
        std::array<int, 7> b;
        b.fill(1);
        b[i] = v;
        b[6 - i] = w;
        X.push_back(b);
      }
  for (auto& a : X) {
    for (auto& b : X) check_pair(a.data(), b.data());
    for (int k = 0; k < 2187; k += 7) {
      check_pair(a.data(), S[k].data());
      check_pair(S[k].data(), a.data());
    }
  }
  // (3) containers: every tuple is found again; sizes equal the number of distinct tuples
  {
    std::set<Dimensions> os;
    std::unordered_set<Dimensions> us;
    std::set<std::array<int, 7>> ref;
    for (auto* V : {&S, &X})
      for (auto& a : *V) {
        os.insert(mk(a.data()));
        us.insert(mk(a.data()));
        ref.insert(a);
      }
    bool ok = os.size() == ref.size() && us.size() == ref.size();
    for (auto& a : ref) ok = ok && os.count(mk(a.data())) == 1 && us.count(mk(a.data())) == 1;
    vf::stat("container_elements", (long long)ref.size());
    if (!ok)
      vf::viol("dims-containers", "{\"set\":" + std::to_string(os.size()) + ",\"unordered_set\":" + std::to_string(us.size()) +
                                      ",\"distinct\":" + std::to_string(ref.size()) + "}");
    // the ordered set iterates in lexicographic order
    auto it = os.begin();
    for (auto& a : ref) {
      if (!(*it == mk(a.data()))) {
        vf::viol("dims-set-order", "{\"at\":" + tup(a.data()) + "}");
        break;
      }
      ++it;
    }
  }
  // (3a) equality is equality of the 7-tuples over the WHOLE exponent range, two slots at a time: all 65536 (x, y) at each pair of
  // positions (i, j), the other exponents zero - 21 x 65536 sets. Equal-comparing sets must be the same tuple: the hashed
  // container keeps exactly as many elements as there are distinct tuples (it uses == inside a bucket), and so does the ordered one
  // (an equality that goes through a non-injective key - a polynomial of the exponents - merges sets here).
  for (int i = 0; i < 7; i++)
    for (int j = i + 1; j < 7; j++) {
      std::unordered_set<Dimensions> us;
      std::set<Dimensions> os;
      us.reserve(70000);
      for (int x = -128; x <= 127; x++)
        for (int y = -128; y <= 127; y++) {
          int t[7] = {0, 0, 0, 0, 0, 0, 0};
          t[i] = x;
          t[j] = y;
          const Dimensions d = mk(t);
          us.insert(d);
          if (((x * 31 + y) & 15) == 0) os.insert(d);  // every 16th one also into the ordered set (cost)
        }
      vf::stat("two_slot_classes");
      vf::stat("container_elements", 65536);
      if (us.size() != 65536 || os.size() != 4096)
        vf::viol("dims-equality-merges-distinct-sets|" + std::to_string(i) + "," + std::to_string(j),
                 "{\"positions\":[" + std::to_string(i) + "," + std::to_string(j) + "],\"distinct_tuples\":65536,\"unordered_set_size\":" + std::to_string(us.size()) + ",\"set_size_of_4096\":" + std::to_string(os.size()) + "}");
    }
  // (3a') the library's own constant: hashed and compared through the constant itself (by reference) and through a copy of it
  {
    const Dimensions copy = PhQ::Dimensionless, fresh{};
    std::hash<Dimensions> H;
    vf::stat("container_elements", 3);
    std::unordered_set<Dimensions> us;
    us.insert(PhQ::Dimensionless);
    if (H(PhQ::Dimensionless) != H(copy) || H(PhQ::Dimensionless) != H(fresh) || !(PhQ::Dimensionless == fresh) || us.count(fresh) != 1 || us.count(copy) != 1 || (PhQ::Dimensionless < copy) ||
        (copy < PhQ::Dimensionless))
      vf::viol("dims-constant-differs-from-its-copy", "{\"hash_of_constant\":" + std::to_string(H(PhQ::Dimensionless)) + ",\"hash_of_copy\":" + std::to_string(H(copy)) + "}");
  }
  // (3b) the hash is a hash of the whole 7-tuple: it depends on every exponent (for each slot there are tuples that differ in
  // that slot only and hash differently) - a deliberately weak requirement that any reasonable hash of the tuple meets
  for (int slot = 0; slot < 7; slot++) {
    bool depends = false;
    for (int bg = 0; bg <= 1 && !depends; bg++)
      for (int v = -2; v <= 2 && !depends; v++) {
        int a[7], b[7];
        for (int i = 0; i < 7; i++) a[i] = b[i] = bg;
        a[slot] = v;
        b[slot] = v + 1;
        depends = std::hash<Dimensions>()(mk(a)) != std::hash<Dimensions>()(mk(b));
      }
    vf::stat("hash_dependence_checks");
    if (!depends) vf::viol("dims-hash-ignores-exponent|" + std::string(ABB[slot]), "{\"what\":\"std::hash<Dimensions> gives the same value for all tested tuples that differ only in this exponent\"}");
  }
  // (4) the seven single-dimension classes: all 256 values, all 65536 pairs
  single_class<D::Time>("T", "Time");
  single_class<D::Length>("L", "Length");
  single_class<D::Mass>("M", "Mass");
  single_class<D::ElectricCurrent>("I", "ElectricCurrent");
  single_class<D::Temperature>("Θ", "Temperature");
  single_class<D::SubstanceAmount>("N", "SubstanceAmount");
  single_class<D::LuminousIntensity>("J", "LuminousIntensity");
  // the Dimensionless constant
  {
    int z[7] = {0, 0, 0, 0, 0, 0, 0};
    if (!(PhQ::Dimensionless == mk(z)) || PhQ::Dimensionless.Print() != "1") vf::viol("dimensionless-constant", "{}");
  }
  return 0;
}
