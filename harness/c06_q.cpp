// c06_q.cpp - for every selected quantity type: the dimension set it declares, and the name of the
// unit type it is measured in (empty for dimensionless types), as the compiler sees them.
#include "probe.hpp"
#include "reflect.hpp"

template <class U>
std::string unit_type_name() {
  std::string_view s = __PRETTY_FUNCTION__;
  auto p = s.rfind("U = ");
  auto t = s.substr(p + 4);
  auto e = t.find_first_of(";]");
  t = t.substr(0, e);
  auto c = t.rfind("::");
  return std::string(c == t.npos ? t : t.substr(c + 2));
}
struct F {
  template <template <class> class Q>
  void operator()(const char* name) {
    one<Q<float>>(name, "float");
    one<Q<double>>(name, "double");
    one<Q<long double>>(name, "long double");
  }
  template <class Q>
  void one(const char* name, const char* t) {
    const PhQ::Dimensions d = Q::Dimensions();
    std::string ut;
    if constexpr (vf::HasUnit<Q>::value) ut = unit_type_name<decltype(Q::Unit())>();
    std::printf("QDIMS %s|%s|%s|%d %d %d %d %d %d %d|%d\n", name, t, ut.c_str(), (int)d.Time().Value(),
                (int)d.Length().Value(), (int)d.Mass().Value(), (int)d.ElectricCurrent().Value(),
                (int)d.Temperature().Value(), (int)d.SubstanceAmount().Value(),
                (int)d.LuminousIntensity().Value(), vf::ncomp<Q>);
  }
};
int main() { vf::for_each_selq(F{}); }
