// c07_hist.cpp - the table lookups are functions of their argument only: every call history of length 3 over the
// enumerators of ONE unit type (and, for ConsistentUnit, over the unit systems) returns what a single call returns.
// Exhaustive over all N^3 (resp. S^3) sequences.   -DVF_HDR=... -DVF_E=... -DVF_ENAME=...
#include VF_HDR

#include "reflect.hpp"
#include "vf.hpp"
using E = VF_E;

template <class R, class F, class ARGS, class SHOW>
void histories(const char* fname, const ARGS& args, F f, SHOW show) {
  const size_t n = args.size();
  std::vector<R> ref;
  for (size_t i = 0; i < n; i++) ref.push_back(f(args[i]));  // one call per argument, in declaration order
  long long bad = 0;
  for (size_t a = 0; a < n; a++)
    for (size_t b = 0; b < n; b++)
      for (size_t c = 0; c < n; c++) {
        const R ra = f(args[a]), rb = f(args[b]), rc = f(args[c]);
        vf::stat("histories");
        vf::stat("transitions", 3);
        if (!(ra == ref[a]) || !(rb == ref[b]) || !(rc == ref[c])) {
          if (!bad++)
            vf::viol(std::string("lookup-depends-on-history|") + VF_ENAME + "|" + fname,
                     std::string("{\"function\":") + vf::jstr(fname) + ",\"history\":[" + vf::jstr(show(args[a])) + "," + vf::jstr(show(args[b])) + "," + vf::jstr(show(args[c])) + "]}");
        }
      }
}

int main() {
  const auto& ens = vf::enumerators<E>();
  const auto& sys = vf::enumerators<PhQ::UnitSystem>();
  std::vector<E> units;
  for (auto& e : ens) units.push_back(e.value);
  std::vector<PhQ::UnitSystem> systems;
  for (auto& s : sys) systems.push_back(s.value);
  auto uname = [&](E u) {
    for (auto& e : ens)
      if (e.value == u) return e.name;
    return std::string("?");
  };
  auto sname = [&](PhQ::UnitSystem s) {
    for (auto& e : sys)
      if (e.value == s) return e.name;
    return std::string("?");
  };
  histories<std::optional<PhQ::UnitSystem>>("RelatedUnitSystem", units, [](E u) { return PhQ::RelatedUnitSystem(u); }, uname);
  histories<E>("ConsistentUnit", systems, [](PhQ::UnitSystem s) { return PhQ::ConsistentUnit<E>(s); }, sname);
  histories<std::string>("Abbreviation", units, [](E u) { return std::string(PhQ::Abbreviation(u)); }, uname);
  histories<std::optional<E>>("ParseEnumeration(Abbreviation)", units, [](E u) { return PhQ::ParseEnumeration<E>(PhQ::Abbreviation(u)); }, uname);
  histories<long double>("Convert(1, u, standard)", units, [](E u) { return PhQ::Convert(1.0L, u, PhQ::Standard<E>); }, uname);
  vf::stat("states", (long long)(units.size() * units.size()));
  if (std::string(VF_ENAME) == "Length") vf::sample("{\"unit_type\":\"Length\",\"history\":[\"RelatedUnitSystem(Millimetre)\",\"RelatedUnitSystem(Mile)\",\"RelatedUnitSystem(Mile)\"],\"expected\":\"mm-g-s-K, none, none\"}");
  return 0;
}
