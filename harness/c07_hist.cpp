// c07_hist.cpp - the table lookups are functions of their argument only: every call history of length 3 over the
// enumerators of ONE unit type (and, for ConsistentUnit, over the unit systems) returns what a single call returns.
// Exhaustive over all N^3 (resp. S^3) sequences. `threads [new-thread-first]`: the same table asked from different threads.   -DVF_HDR=... -DVF_E=... -DVF_ENAME=...
#include VF_HDR

#include <sys/wait.h>
#include <unistd.h>

#include <algorithm>
#include <thread>

#include "reflect.hpp"
#include "vf.hpp"
using E = VF_E;

// The three results of a history are bound the way a caller may bind them - `const auto& r = Lookup(x);` - and are all
// read AFTER the third call: a result must not change because a later call was made (on this tree the functions return by
// value, the binding extends a temporary's life; a function returning a reference to shared storage fails here).
template <class R, class F, class ARGS, class SHOW>
void histories(const char* fname, const ARGS& args, F f, SHOW show) {
  const size_t n = args.size();
  std::vector<R> ref;
  for (size_t i = 0; i < n; i++) ref.push_back(R(f(args[i])));  // one call per argument, in declaration order
  long long bad = 0;
  for (size_t a = 0; a < n; a++)
    for (size_t b = 0; b < n; b++)
      for (size_t c = 0; c < n; c++) {
        const auto& ra = f(args[a]);
        const auto& rb = f(args[b]);
        const auto& rc = f(args[c]);
        vf::stat("histories");
        vf::stat("transitions", 3);
        if (!(R(ra) == ref[a]) || !(R(rb) == ref[b]) || !(R(rc) == ref[c])) {
          if (!bad++)
            vf::viol(std::string("lookup-depends-on-history|") + VF_ENAME + "|" + fname,
                     std::string("{\"function\":") + vf::jstr(fname) + ",\"history\":[" + vf::jstr(show(args[a])) + "," + vf::jstr(show(args[b])) + "," + vf::jstr(show(args[c])) + "]}");
        }
      }
}

// Every lookup of the type, as one string: what one thread sees.
static std::string table() {
  std::string o;
  for (auto& e : vf::enumerators<E>()) {
    const auto r = PhQ::RelatedUnitSystem(e.value);
    o += std::string(PhQ::Abbreviation(e.value)) + "=" + (r.has_value() ? std::to_string((int)static_cast<int8_t>(r.value())) : std::string("-")) + ";";
    const auto p = PhQ::ParseEnumeration<E>(PhQ::Abbreviation(e.value));
    o += (p.has_value() ? std::to_string((int)static_cast<int8_t>(p.value())) : std::string("-")) + ";" + vf::hex(PhQ::Convert(1.0L, e.value, PhQ::Standard<E>)) + ";";
  }
  for (auto& s : vf::enumerators<PhQ::UnitSystem>()) o += std::to_string((int)static_cast<int8_t>(PhQ::ConsistentUnit<E>(s.value))) + "," + std::string(PhQ::Abbreviation(s.value)) + ";";
  return o;
}
static std::string table_in_new_thread() {
  std::string o;
  std::thread t([&] { o = table(); });
  t.join();
  return o;
}
// Which thread asks must not matter either: the two orders (main first / a new thread first, decided by the argument so that
// each order is the first use in its process) and a third asker afterwards. No concurrency: the threads run one after another.
static void threads(bool thread_first) {
  std::string a, b, c, d;
  if (thread_first) {
    a = table_in_new_thread();
    b = table();
  } else {
    a = table();
    b = table_in_new_thread();
  }
  c = table_in_new_thread();
  d = table();
  vf::stat("thread_orders");
  vf::stat("histories", 4);
  if (a != b || a != c || a != d) {
    size_t i = 0;
    const std::string& x = a != b ? b : a != c ? c : d;
    while (i < a.size() && i < x.size() && a[i] == x[i]) i++;
    const size_t from = a.rfind(';', i) == std::string::npos ? 0 : a.rfind(';', i) + 1;
    vf::viol(std::string("lookup-depends-on-thread|") + VF_ENAME + "|" + (thread_first ? "new-thread-first" : "main-first"),
             std::string("{\"order\":") + (thread_first ? "\"new thread, main, new thread, main\"" : "\"main, new thread, new thread, main\"") + ",\"first_asker_saw\":" + vf::jstr(a.substr(from, 60)) +
                 ",\"another_asker_saw\":" + vf::jstr(x.substr(from, 60)) + "}");
  }
}

// Histories that start from a PRISTINE process: the reference is what a single call returns in a process that has made no
// other lookup (one forked child per argument), and every ordered pair (a, b) - for ConsistentUnit every order of the unit
// systems - is run as the first calls of its own forked child: a, b, a again. Order of first use must not matter.
template <class F>
static std::string in_child(const std::vector<size_t>& seq, F f) {
  int fd[2];
  if (pipe(fd) != 0) return "pipe failed";
  const pid_t pid = fork();
  if (pid == 0) {
    close(fd[0]);
    std::string out;
    for (size_t i : seq) out += f(i) + "\n";
    size_t off = 0;
    while (off < out.size()) {
      const ssize_t w = write(fd[1], out.data() + off, out.size() - off);
      if (w <= 0) break;
      off += (size_t)w;
    }
    _exit(0);
  }
  close(fd[1]);
  std::string got;
  char buf[4096];
  ssize_t r;
  while ((r = read(fd[0], buf, sizeof buf)) > 0) got.append(buf, (size_t)r);
  close(fd[0]);
  int status = 0;
  waitpid(pid, &status, 0);
  if (!WIFEXITED(status) || WEXITSTATUS(status) != 0) got += "<child ended abnormally>";
  return got;
}
template <class F, class SHOW>
static void fresh_histories(const char* fname, size_t n, F f, SHOW show, bool all_orders, size_t limit) {
  std::vector<std::string> single(n);
  for (size_t i = 0; i < n; i++) single[i] = in_child({i}, f);
  long long bad = 0;
  auto judge = [&](const std::vector<size_t>& seq) {
    std::string want;
    for (size_t i : seq) want += single[i];
    vf::stat("fresh_process_histories");
    vf::stat("histories");
    vf::stat("transitions", (long long)seq.size());
    if (in_child(seq, f) != want && !bad++) {
      std::string h = "[";
      for (size_t k = 0; k < seq.size(); k++) h += (k ? "," : "") + vf::jstr(show(seq[k]));
      vf::viol(std::string("lookup-depends-on-first-use|") + VF_ENAME + "|" + fname, std::string("{\"function\":") + vf::jstr(fname) + ",\"first_calls_of_a_fresh_process\":" + h + "]}");
    }
  };
  if (all_orders) {
    std::vector<size_t> perm(n);
    for (size_t i = 0; i < n; i++) perm[i] = i;
    do {
      std::vector<size_t> seq = perm;
      seq.insert(seq.end(), perm.begin(), perm.end());  // every order of first use, then the same order again
      judge(seq);
    } while (std::next_permutation(perm.begin(), perm.end()));
  }
  const size_t m = n < limit ? n : limit;  // a prefix-and-suffix subset when the full square is too large for this tier
  std::vector<size_t> pick;
  for (size_t i = 0; i < n; i++)
    if (n <= limit || i < m / 2 || i >= n - (m - m / 2)) pick.push_back(i);
  for (size_t a : pick)
    for (size_t b : pick)
      if (a != b) judge({a, b, a});
}

int main(int argc, char** argv) {
  if (argc > 1 && std::string(argv[1]) == "fresh") {
    const bool th = std::getenv("VERIF_TIER") && std::string(std::getenv("VERIF_TIER")) == "thorough";
    std::vector<E> us;
    for (auto& e : vf::enumerators<E>()) us.push_back(e.value);
    std::vector<PhQ::UnitSystem> ss;
    for (auto& e : vf::enumerators<PhQ::UnitSystem>()) ss.push_back(e.value);
    auto un = [&](size_t i) { return vf::enumerators<E>()[i].name; };
    auto sn = [&](size_t i) { return vf::enumerators<PhQ::UnitSystem>()[i].name; };
    const size_t lim = th ? 100000 : 12;
    fresh_histories("ConsistentUnit", ss.size(), [&](size_t i) { return std::to_string((int)static_cast<int8_t>(PhQ::ConsistentUnit<E>(ss[i]))); }, sn, true, 100000);
    fresh_histories("RelatedUnitSystem", us.size(), [&](size_t i) {
      const auto r = PhQ::RelatedUnitSystem(us[i]);
      return r.has_value() ? std::to_string((int)static_cast<int8_t>(r.value())) : std::string("-");
    }, un, false, th ? 100000 : 40);
    fresh_histories("Abbreviation", us.size(), [&](size_t i) { return std::string(PhQ::Abbreviation(us[i])); }, un, false, lim);
    fresh_histories("ParseEnumeration(Abbreviation)", us.size(), [&](size_t i) {
      const auto p = PhQ::ParseEnumeration<E>(PhQ::Abbreviation(us[i]));
      return p.has_value() ? std::to_string((int)static_cast<int8_t>(p.value())) : std::string("-");
    }, un, false, lim);
    fresh_histories("Convert(1, u, standard)", us.size(), [&](size_t i) { return vf::hex(PhQ::Convert(1.0L, us[i], PhQ::Standard<E>)); }, un, false, lim);
    return 0;
  }
  if (argc > 1 && std::string(argv[1]) == "threads") {
    threads(argc > 2 && std::string(argv[2]) == "new-thread-first");
    return 0;
  }
  const auto& ens = vf::enumerators<E>();
  const auto& sys = vf::enumerators<PhQ::UnitSystem>();
  std::vector<E> units;
  for (auto& e : ens) units.push_back(e.value);
  std::vector<PhQ::UnitSystem> systems;
  for (auto& s : sys) systems.push_back(s.value);
  auto uname = [&](E u) {
    for (auto& e : ens)
      if (e.value == u) return e.name;
    return std::string("?");
  };
  auto sname = [&](PhQ::UnitSystem s) {
    for (auto& e : sys)
      if (e.value == s) return e.name;
    return std::string("?");
  };
  histories<std::optional<PhQ::UnitSystem>>("RelatedUnitSystem", units, [](E u) -> decltype(auto) { return PhQ::RelatedUnitSystem(u); }, uname);
  histories<E>("ConsistentUnit", systems, [](PhQ::UnitSystem s) -> decltype(auto) { return PhQ::ConsistentUnit<E>(s); }, sname);
  histories<std::string>("Abbreviation", units, [](E u) -> decltype(auto) { return PhQ::Abbreviation(u); }, uname);
  histories<std::optional<E>>("ParseEnumeration(Abbreviation)", units, [](E u) -> decltype(auto) { return PhQ::ParseEnumeration<E>(PhQ::Abbreviation(u)); }, uname);
  histories<long double>("Convert(1, u, standard)", units, [](E u) -> decltype(auto) { return PhQ::Convert(1.0L, u, PhQ::Standard<E>); }, uname);
  vf::stat("states", (long long)(units.size() * units.size()));
  if (std::string(VF_ENAME) == "Length") vf::sample("{\"unit_type\":\"Length\",\"history\":[\"RelatedUnitSystem(Millimetre)\",\"RelatedUnitSystem(Mile)\",\"RelatedUnitSystem(Mile)\"],\"expected\":\"mm-g-s-K, none, none\"}");
  return 0;
}
