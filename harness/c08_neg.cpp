// c08_neg.cpp - negative space of ParseEnumeration<E> for one enumeration type (C08, C20).
// Oracle: a string is accepted iff it is byte-identical to a key of the spelling table, decided
// by a linear memcmp scan over the keys (independent of the hash lookup under test).
#include VF_HDR
#if VF_KIND == 2
#include <PhQ/ConstitutiveModel.hpp>
#endif
#include <unordered_set>

#include "reflect.hpp"
#include "vf.hpp"
using E = VF_E;

// Deep negative space (thorough): EVERY string of length <= L over the bytes that occur in the type's own spellings, L the
// largest depth whose string count stays under the budget, walked depth-first in one reused buffer. Oracle: a trie of the
// table keys built here (a string is accepted iff the walk ends on a terminal node), independent of the lookup under test.
struct Trie {
  struct Node {
    int next[256];
    int value = -1000;
    Node() { for (int& n : next) n = -1; }
  };
  std::vector<Node> nodes{Node()};
  void add(const std::string& k, int v) {
    int cur = 0;
    for (unsigned char c : k) {
      if (nodes[cur].next[c] < 0) {
        nodes[cur].next[c] = (int)nodes.size();
        nodes.emplace_back();
      }
      cur = nodes[cur].next[c];
    }
    nodes[cur].value = v;
  }
};
static Trie trie;
static std::vector<unsigned char> deep_al;
static char deep_buf[64];
static long long deep_n = 0, deep_keys = 0, deep_bad = 0;
static void deep_visit(int len, int node) {
  // node: trie node reached by deep_buf[0..len), -1 when the prefix has left the trie
  const auto got = PhQ::ParseEnumeration<E>(std::string_view(deep_buf, (size_t)len));
  const int want = node >= 0 ? trie.nodes[node].value : -1000;
  deep_n++;
  if (want != -1000) deep_keys++;
  const int g = got.has_value() ? (int)static_cast<int8_t>(got.value()) : -1000;
  if (g != want && deep_bad++ < 5) {
    std::string hexs;
    for (int i = 0; i < len; i++) {
      char b[4];
      std::snprintf(b, sizeof b, "%02x", (unsigned char)deep_buf[i]);
      hexs += b;
    }
    vf::viol(std::string("negative-space|") + VF_ENAME + "|" + hexs, "{\"string_hex\":\"" + hexs + "\",\"string\":" + vf::jstr(std::string(deep_buf, (size_t)len)) + ",\"is_table_key\":" +
                                                                          (want != -1000 ? "true" : "false") + ",\"parsed\":" + (g == -1000 ? std::string("null") : std::to_string(g)) + ",\"walk\":\"deep\"}");
  }
}
static void deep_walk(int len, int node, int maxlen) {
  deep_visit(len, node);
  if (len == maxlen) return;
  for (unsigned char c : deep_al) {
    deep_buf[len] = (char)c;
    deep_buf[len + 1] = 'Z';
    deep_walk(len + 1, node >= 0 ? trie.nodes[node].next[c] : -1, maxlen);
  }
}
static int deep_main(int part, int parts, double budget) {
  std::set<unsigned char> sigma;
  for (const auto& [s, v] : PhQ::Internal::Spellings<E>) {
    trie.add(std::string(s), (int)static_cast<int8_t>(v));
    for (unsigned char c : s) sigma.insert(c);
  }
  deep_al.assign(sigma.begin(), sigma.end());
  int L = 1;
  while (std::pow((double)deep_al.size(), L + 1) <= budget && L < 12) L++;
  if (part == 0) deep_visit(0, 0);
  for (size_t i = 0; i < deep_al.size(); i++) {
    if ((int)(i % (size_t)parts) != part) continue;
    deep_buf[0] = (char)deep_al[i];
    deep_buf[1] = 'Z';
    deep_walk(1, trie.nodes[0].next[deep_al[i]], L);
  }
  vf::stat("deep_strings", deep_n);
  vf::stat("deep_keys_accepted", deep_keys);
  vf::stat("neg_strings", deep_n);
  vf::stat("neg_nonkeys", deep_n - deep_keys);
  if (part == 0) {
    vf::stat("deep_types");
    vf::note("deep negative space of " + std::string(VF_ENAME) + ": alphabet " + std::to_string(deep_al.size()) + " bytes, every string up to length " + std::to_string(L));
  }
  return 0;
}

int main(int argc, char** argv) {
  if (argc >= 5 && std::string(argv[1]) == "deep") return deep_main(std::atoi(argv[2]), std::atoi(argv[3]), std::atof(argv[4]));
  const bool thorough = std::getenv("VERIF_TIER") && std::string(std::getenv("VERIF_TIER")) == "thorough";
  std::vector<std::pair<std::string, E>> keys;
  for (const auto& [s, v] : PhQ::Internal::Spellings<E>) keys.emplace_back(std::string(s), v);
  std::set<unsigned char> sigma = {0, 0xff, ' ', 'A', 'a', 'Z', 'z', '0', '2', '^', '/', 0xce, 0xc2};
  for (auto& k : keys)
    for (unsigned char c : k.first) sigma.insert(c);
  std::vector<unsigned char> al(sigma.begin(), sigma.end());
  std::unordered_set<std::string> cases;
  cases.insert(std::string());
  for (auto& [k, v] : keys) {
    cases.insert(k);
    for (size_t i = 0; i < k.size(); i++) {
      std::string d = k;
      d.erase(i, 1);
      cases.insert(d);
      for (unsigned char c : al) {
        std::string s = k;
        s[i] = (char)c;
        cases.insert(s);
      }
    }
    for (size_t i = 0; i <= k.size(); i++)
      for (unsigned char c : al) {
        std::string s = k;
        s.insert(i, 1, (char)c);
        cases.insert(s);
      }
    std::string up = k, lo = k;
    for (auto& c : up) c = (char)std::toupper((unsigned char)c);
    for (auto& c : lo) c = (char)std::tolower((unsigned char)c);
    cases.insert(up);
    cases.insert(lo);
    cases.insert(k + k);
    cases.insert(" " + k);
    cases.insert(k + " ");
    cases.insert(k + std::string(1, '\0'));
  }
  const int maxlen = thorough ? 3 : 2;
  std::vector<std::string> level = {std::string()};
  for (int L = 1; L <= maxlen; L++) {
    std::vector<std::string> next;
    for (auto& p : level)
      for (unsigned char c : al) next.push_back(p + (char)c);
    for (auto& s : next) cases.insert(s);
    level.swap(next);
  }
  const auto& ens = vf::enumerators<E>();
  long long nonkeys = 0, accepted = 0;
  // Every string is parsed from ONE reused buffer, directly after an accepted spelling of the same length was parsed from the
  // same address (a two-step history): the answer must depend on the bytes of the view only, not on what was parsed before
  // or where the bytes live.
  std::map<size_t, std::vector<const std::pair<std::string, E>*>> keys_by_len;
  for (auto& kv : keys) keys_by_len[kv.first.size()].push_back(&kv);
  std::vector<char> buffer(4096);
  size_t rot = 0;
  for (const std::string& s : cases) {
    const std::pair<std::string, E>* hit = nullptr;
    for (auto& kv : keys)
      if (kv.first.size() == s.size() && std::memcmp(kv.first.data(), s.data(), s.size()) == 0) {
        hit = &kv;
        break;
      }
    if (s.size() + 1 > buffer.size()) buffer.resize(2 * s.size() + 1);
    auto it = keys_by_len.find(s.size());
    if (it != keys_by_len.end()) {
      const auto* prime = it->second[rot++ % it->second.size()];
      std::memcpy(buffer.data(), prime->first.data(), prime->first.size());
      const auto primed = PhQ::ParseEnumeration<E>(std::string_view(buffer.data(), prime->first.size()));
      if (!primed.has_value() || primed.value() != prime->second) vf::viol(std::string("negative-space|") + VF_ENAME + "|priming-parse-failed", "{}");
      vf::stat("priming_parses");
    }
    std::memcpy(buffer.data(), s.data(), s.size());
    buffer[s.size()] = 'Z';  // the view is not NUL-terminated
    std::optional<E> got;
    bool threw = false;
    try {
      got = PhQ::ParseEnumeration<E>(std::string_view(buffer.data(), s.size()));
    } catch (...) {
      threw = true;
    }
    vf::stat("neg_strings");
    if (!hit) nonkeys++; else accepted++;
    bool ok = !threw && (hit ? (got.has_value() && got.value() == hit->second) : !got.has_value());
    if (ok && got.has_value()) {
      bool declared = false;
      for (auto& en : ens) declared |= (en.value == got.value());
      if (!declared) ok = false;
    }
    if (!ok) {
      std::string hexs;
      for (unsigned char c : s) {
        char b[4];
        std::snprintf(b, sizeof b, "%02x", c);
        hexs += b;
      }
      vf::viol(std::string("negative-space|") + VF_ENAME + "|" + hexs,
               "{\"string_hex\":\"" + hexs + "\",\"string\":" + vf::jstr(s) + ",\"is_table_key\":" + (hit ? "true" : "false") +
                   ",\"parsed\":" + (threw ? std::string("\"threw\"") : got.has_value() ? std::to_string((int)static_cast<int8_t>(got.value())) : std::string("null")) + "}");
    }
  }
  vf::stat("neg_nonkeys", nonkeys);
  vf::stat("neg_keys_accepted", accepted);
  if (std::string(VF_ENAME) == "Length")
    vf::sample("{\"type\":\"Length\",\"negative_space_strings\":" + std::to_string(cases.size()) + ",\"example\":\"mm \"}");
  return 0;
}
