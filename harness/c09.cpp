// c09.cpp - vectors and tensors vs an index-loop reference: exactly on integer grids, to 4 ulp of
// the sum of |terms| on real-valued inputs (reference in __float128). One numeric type per run.
// usage: c09 <float|double|longdouble> <part> <nparts>
#include <PhQ/Direction.hpp>
#include <PhQ/Dyad.hpp>
#include <PhQ/PlanarDirection.hpp>
#include <PhQ/PlanarVector.hpp>
#include <PhQ/SymmetricDyad.hpp>
#include <PhQ/Vector.hpp>

#include "probe.hpp"
#include "vf.hpp"

using vf::f128;
static bool thorough = false;
static int PART = 0, NPARTS = 1;

// ------------------------------------------------------------------ reference scalar types
struct Tr {  // tracked real: value and sum of |terms|
  f128 v, a;
  Tr(f128 x = 0) : v(x), a(fabsq(x)) {}
  Tr(f128 x, f128 s) : v(x), a(s) {}
};
inline Tr operator+(Tr x, Tr y) { return Tr(x.v + y.v, x.a + y.a); }
inline Tr operator-(Tr x, Tr y) { return Tr(x.v - y.v, x.a + y.a); }
inline Tr operator*(Tr x, Tr y) { return Tr(x.v * y.v, x.a * y.a); }
using LL = long long;

template <class S>
struct RV {
  S v[3];
};
template <class S>
struct RM {
  S m[3][3];
};
template <class S>
S r_dot(const RV<S>& a, const RV<S>& b) {
  S s = a.v[0] * b.v[0];
  for (int i = 1; i < 3; i++) s = s + a.v[i] * b.v[i];
  return s;
}
template <class S>
RV<S> r_cross(const RV<S>& a, const RV<S>& b) {
  RV<S> r;
  for (int i = 0; i < 3; i++) r.v[i] = a.v[(i + 1) % 3] * b.v[(i + 2) % 3] - a.v[(i + 2) % 3] * b.v[(i + 1) % 3];
  return r;
}
template <class S>
RM<S> r_dyadic(const RV<S>& a, const RV<S>& b) {
  RM<S> r;
  for (int i = 0; i < 3; i++)
    for (int j = 0; j < 3; j++) r.m[i][j] = a.v[i] * b.v[j];
  return r;
}
template <class S>
RV<S> r_matvec(const RM<S>& A, const RV<S>& x) {
  RV<S> r;
  for (int i = 0; i < 3; i++) {
    r.v[i] = A.m[i][0] * x.v[0];
    for (int j = 1; j < 3; j++) r.v[i] = r.v[i] + A.m[i][j] * x.v[j];
  }
  return r;
}
template <class S>
RM<S> r_matmul(const RM<S>& A, const RM<S>& B) {
  RM<S> r;
  for (int i = 0; i < 3; i++)
    for (int j = 0; j < 3; j++) {
      r.m[i][j] = A.m[i][0] * B.m[0][j];
      for (int k = 1; k < 3; k++) r.m[i][j] = r.m[i][j] + A.m[i][k] * B.m[k][j];
    }
  return r;
}
template <class S>
RM<S> r_cof(const RM<S>& A) {
  RM<S> r;
  for (int i = 0; i < 3; i++)
    for (int j = 0; j < 3; j++)
      r.m[i][j] = A.m[(i + 1) % 3][(j + 1) % 3] * A.m[(i + 2) % 3][(j + 2) % 3] - A.m[(i + 1) % 3][(j + 2) % 3] * A.m[(i + 2) % 3][(j + 1) % 3];
  return r;
}
template <class S>
RM<S> r_tr(const RM<S>& A) {
  RM<S> r;
  for (int i = 0; i < 3; i++)
    for (int j = 0; j < 3; j++) r.m[i][j] = A.m[j][i];
  return r;
}
template <class S>
S r_det(const RM<S>& A) {
  RM<S> c = r_cof(A);
  S s = A.m[0][0] * c.m[0][0];
  for (int j = 1; j < 3; j++) s = s + A.m[0][j] * c.m[0][j];
  return s;
}
template <class S>
S r_trace(const RM<S>& A) {
  return A.m[0][0] + A.m[1][1] + A.m[2][2];
}

// ------------------------------------------------------------------ conversions library <-> reference
inline LL toS(LL, long double x) { return (LL)x; }
inline Tr toS(Tr, long double x) { return Tr((f128)x); }
template <class S, class T>
RV<S> rv(const PhQ::Vector<T>& v) {
  return {{toS(S{}, v.x()), toS(S{}, v.y()), toS(S{}, v.z())}};
}
template <class S, class T>
RV<S> rv(const PhQ::PlanarVector<T>& v) {
  return {{toS(S{}, v.x()), toS(S{}, v.y()), toS(S{}, 0)}};
}
template <class S, class T>
RV<S> rv(const PhQ::Direction<T>& v) {
  return {{toS(S{}, v.x()), toS(S{}, v.y()), toS(S{}, v.z())}};
}
template <class S, class T>
RV<S> rv(const PhQ::PlanarDirection<T>& v) {
  return {{toS(S{}, v.x()), toS(S{}, v.y()), toS(S{}, 0)}};
}
template <class S, class T>
RM<S> rm(const PhQ::Dyad<T>& d) {
  return {{{toS(S{}, d.xx()), toS(S{}, d.xy()), toS(S{}, d.xz())},
           {toS(S{}, d.yx()), toS(S{}, d.yy()), toS(S{}, d.yz())},
           {toS(S{}, d.zx()), toS(S{}, d.zy()), toS(S{}, d.zz())}}};
}
template <class S, class T>
RM<S> rm(const PhQ::SymmetricDyad<T>& d) {
  return {{{toS(S{}, d.xx()), toS(S{}, d.xy()), toS(S{}, d.xz())},
           {toS(S{}, d.xy()), toS(S{}, d.yy()), toS(S{}, d.yz())},
           {toS(S{}, d.xz()), toS(S{}, d.yz()), toS(S{}, d.zz())}}};
}
// flatten a reference result in the component order of the library type that holds it
template <class S>
void flat(const RV<S>& r, int n, S* o) {
  for (int i = 0; i < n; i++) o[i] = r.v[i];
}
template <class S>
void flat(const RM<S>& r, int n, S* o) {
  if (n == 9) {
    for (int i = 0; i < 3; i++)
      for (int j = 0; j < 3; j++) o[3 * i + j] = r.m[i][j];
  } else {
    o[0] = r.m[0][0];
    o[1] = r.m[0][1];
    o[2] = r.m[0][2];
    o[3] = r.m[1][1];
    o[4] = r.m[1][2];
    o[5] = r.m[2][2];
  }
}
template <class S>
void flat(const S& r, int, S* o) {
  o[0] = r;
}

// ------------------------------------------------------------------ comparison
static const double TOL = 4.0;
template <class T>
bool agree(T got, LL ref) {
  return got == (T)ref;
}
template <class T>
bool agree(T got, const Tr& ref) {
  if (ref.a == 0) return got == 0;
  return vf::ulps<T>(got, ref.v, ref.a) <= TOL;
}
inline std::string show(LL x) { return std::to_string(x); }
inline std::string show(const Tr& x) { return vf::hexq(x.v); }

template <class T, class L, class R, class Desc>
void expect(const char* op, const L& lib, const R& ref, Desc&& desc) {
  using S = std::conditional_t<std::is_same_v<R, LL> || std::is_same_v<R, RV<LL>> || std::is_same_v<R, RM<LL>>, LL, Tr>;
  constexpr int n = vf::count_of<L>();
  T got[9];
  S want[9];
  vf::comps(lib, got);
  flat(ref, n, want);
  vf::stat(std::is_same_v<S, LL> ? "integer_cases" : "real_cases");
  for (int i = 0; i < n; i++)
    if (!agree<T>(got[i], want[i])) {
      vf::viol(std::string("tensor|") + op + "|" + vf::TName<T>::value + "|" + (std::is_same_v<S, LL> ? "integer" : "real") + "|component" + std::to_string(i),
               std::string("{\"operation\":") + vf::jstr(op) + ",\"numeric_type\":" + vf::jstr(vf::TName<T>::value) + ",\"component\":" + std::to_string(i) +
                   ",\"observed\":" + vf::jstr(vf::dec(got[i])) + ",\"expected\":" + vf::jstr(show(want[i])) + ",\"operands\":" + desc() + "}");
      return;
    }
}
#define DESC1(a) [&] { return std::string("[") + vf::comps_hex(a) + "]"; }
#define DESC2(a, b) [&] { return std::string("[") + vf::comps_hex(a) + "," + vf::comps_hex(b) + "]"; }

// ------------------------------------------------------------------ operation batteries (S = LL or Tr)
template <class S, class T, class VA, class VB>
void vec_pair(const char* tag, const VA& a, const VB& b) {
  const auto ra = rv<S>(a), rb = rv<S>(b);
  std::string t = tag;
  expect<T>((t + ".Dot").c_str(), a.Dot(b), r_dot(ra, rb), DESC2(a, b));
  expect<T>((t + ".Cross").c_str(), a.Cross(b), r_cross(ra, rb), DESC2(a, b));
  expect<T>((t + ".Dyadic").c_str(), a.Dyadic(b), r_dyadic(ra, rb), DESC2(a, b));
}
template <class S, class T, class V>
void vec_arith(const char* tag, const V& a, const V& b, T k) {
  const auto ra = rv<S>(a), rb = rv<S>(b);
  std::string t = tag;
  RV<S> s, d, m;
  const S ks = toS(S{}, k);
  for (int i = 0; i < 3; i++) {
    s.v[i] = ra.v[i] + rb.v[i];
    d.v[i] = ra.v[i] - rb.v[i];
    m.v[i] = ra.v[i] * ks;
  }
  expect<T>((t + "+").c_str(), a + b, s, DESC2(a, b));
  expect<T>((t + "-").c_str(), a - b, d, DESC2(a, b));
  expect<T>((t + "*number").c_str(), a * k, m, DESC1(a));
  expect<T>(("number*" + t).c_str(), k * a, m, DESC1(a));
  expect<T>((t + "+ (named, temporary)").c_str(), a + V(b), s, DESC2(a, b));
  expect<T>((t + "+ (temporary, named)").c_str(), V(a) + b, s, DESC2(a, b));
  expect<T>((t + "+ (temporaries)").c_str(), V(a) + V(b), s, DESC2(a, b));
  expect<T>((t + "- (named, temporary)").c_str(), a - V(b), d, DESC2(a, b));
  expect<T>((t + "- (temporary, named)").c_str(), V(a) - b, d, DESC2(a, b));
  expect<T>((t + "- (temporaries)").c_str(), V(a) - V(b), d, DESC2(a, b));
  expect<T>((t + "*number (temporary)").c_str(), V(a) * k, m, DESC1(a));
  expect<T>(("number*" + t + " (temporary)").c_str(), k * V(a), m, DESC1(a));
  V c = a;
  c += b;
  expect<T>((t + "+=").c_str(), c, s, DESC2(a, b));
  c = a;
  c -= b;
  expect<T>((t + "-=").c_str(), c, d, DESC2(a, b));
  c = a;
  c *= k;
  expect<T>((t + "*=").c_str(), c, m, DESC1(a));
  expect<T>((t + ".MagnitudeSquared").c_str(), a.MagnitudeSquared(), r_dot(ra, ra), DESC1(a));
}
template <class T, class V>
void vec_div_mag(const char* tag, const V& a, T k) {
  // division by a number and the magnitude: correctly rounded T operations on exact operands
  constexpr int n = vf::count_of<V>();
  T c[3], q[3];
  vf::comps(a, c);
  vf::comps(a / k, q);
  V b = a;
  b /= k;
  T q2[3];
  vf::comps(b, q2);
  vf::stat("integer_cases", 3);
  for (int i = 0; i < n; i++)
    if (!vf::same_bits(q[i], (T)(c[i] / k)) && !(q[i] == c[i] / k))
      vf::viol(std::string("tensor|") + tag + "/number|" + vf::TName<T>::value + "|component" + std::to_string(i), "{\"operands\":" + vf::comps_hex(a) + "}");
    else if (!(q2[i] == c[i] / k))
      vf::viol(std::string("tensor|") + tag + "/=number|" + vf::TName<T>::value + "|component" + std::to_string(i), "{\"operands\":" + vf::comps_hex(a) + "}");
  f128 s = 0;
  for (int i = 0; i < n; i++) s += (f128)c[i] * (f128)c[i];
  // exact where the root is itself an integer ("exactly on integer-valued inputs"), a few ulps otherwise
  const f128 root = sqrtq(s);
  if (root == floorq(root) ? !(a.Magnitude() == (T)root) : !(vf::ulps<T>(a.Magnitude(), root) <= 4.0))
    vf::viol(std::string("tensor|") + tag + ".Magnitude|" + vf::TName<T>::value, "{\"operands\":" + vf::comps_hex(a) + ",\"observed\":" + vf::jstr(vf::dec(a.Magnitude())) + "}");
}

template <class S, class T, class M>
void mat_unary(const char* tag, const M& A) {
  const RM<S> R = rm<S>(A);
  std::string t = tag;
  expect<T>((t + ".Trace").c_str(), A.Trace(), r_trace(R), DESC1(A));
  expect<T>((t + ".Determinant").c_str(), A.Determinant(), r_det(R), DESC1(A));
  expect<T>((t + ".Transpose").c_str(), A.Transpose(), r_tr(R), DESC1(A));
  expect<T>((t + ".Cofactors").c_str(), A.Cofactors(), r_cof(R), DESC1(A));
  expect<T>((t + ".Adjugate").c_str(), A.Adjugate(), r_tr(r_cof(R)), DESC1(A));
}
template <class S, class T, class M>
void mat_arith(const char* tag, const M& A, const M& B, T k) {
  const RM<S> a = rm<S>(A), b = rm<S>(B);
  RM<S> s, d, m;
  const S ks = toS(S{}, k);
  for (int i = 0; i < 3; i++)
    for (int j = 0; j < 3; j++) {
      s.m[i][j] = a.m[i][j] + b.m[i][j];
      d.m[i][j] = a.m[i][j] - b.m[i][j];
      m.m[i][j] = a.m[i][j] * ks;
    }
  std::string t = tag;
  expect<T>((t + "+").c_str(), A + B, s, DESC2(A, B));
  expect<T>((t + "-").c_str(), A - B, d, DESC2(A, B));
  expect<T>((t + "*number").c_str(), A * k, m, DESC1(A));
  expect<T>(("number*" + t).c_str(), k * A, m, DESC1(A));
  // every value category of the operands (named - temporary, temporary - named, both temporaries): same results
  expect<T>((t + "+ (named, temporary)").c_str(), A + M(B), s, DESC2(A, B));
  expect<T>((t + "+ (temporary, named)").c_str(), M(A) + B, s, DESC2(A, B));
  expect<T>((t + "+ (temporaries)").c_str(), M(A) + M(B), s, DESC2(A, B));
  expect<T>((t + "- (named, temporary)").c_str(), A - M(B), d, DESC2(A, B));
  expect<T>((t + "- (temporary, named)").c_str(), M(A) - B, d, DESC2(A, B));
  expect<T>((t + "- (temporaries)").c_str(), M(A) - M(B), d, DESC2(A, B));
  expect<T>((t + "*number (temporary)").c_str(), M(A) * k, m, DESC1(A));
  expect<T>(("number*" + t + " (temporary)").c_str(), k * M(A), m, DESC1(A));
  M C = A;
  C += B;
  expect<T>((t + "+=").c_str(), C, s, DESC2(A, B));
  C = A;
  C -= B;
  expect<T>((t + "-=").c_str(), C, d, DESC2(A, B));
  C = A;
  C *= k;
  expect<T>((t + "*=").c_str(), C, m, DESC1(A));
}

// Inverse on an integer tensor scaled by 2^e: absent iff the integer determinant is zero; otherwise
// each component is the quotient adj/det (scaled by 2^-e) to 4 ulps, and A * inverse = I. The scales include one at which
// the determinant (an exact small integer times 2^3e) is a subnormal number while the tensor and its inverse are ordinary.
template <class T, class M>
void inverse_check(const char* tag, const M& A0, int e) {
  const RM<LL> R = rm<LL>(A0);
  const LL det = r_det(R);
  const RM<LL> adj = r_tr(r_cof(R));
  const T sc = std::ldexp((T)1, e);
  M A = A0 * sc;
  const auto inv = A.Inverse();
  vf::stat("inverse_cases");
  std::string key = std::string("tensor|") + tag + ".Inverse|" + vf::TName<T>::value;
  if ((det == 0) != !inv.has_value()) {
    vf::viol(key + (det == 0 ? "|present-for-singular" : "|absent-for-nonsingular"),
             "{\"integer_tensor\":" + vf::comps_hex(A0) + ",\"scale_exponent\":" + std::to_string(e) + ",\"integer_determinant\":" + std::to_string(det) + "}");
    return;
  }
  if (det == 0) return;
  constexpr int n = vf::count_of<M>();
  T got[9];
  LL a[9];
  vf::comps(inv.value(), got);
  flat(adj, n, a);
  for (int i = 0; i < n; i++) {
    // the exact quotient adj/det, 2^-e exactly; the statement asks for "a few ulps" where the result is not an integer
    const f128 exact = scalbnq((f128)a[i] / (f128)det, -e);
    const T want = std::ldexp((T)a[i] / (T)det, -e);
    if (!(vf::ulps<T>(got[i], exact) <= 4.0)) {
      vf::viol(key + "|component" + std::to_string(i), "{\"integer_tensor\":" + vf::comps_hex(A0) + ",\"scale_exponent\":" + std::to_string(e) +
                                                            ",\"observed\":" + vf::jstr(vf::hex(got[i])) + ",\"expected\":" + vf::jstr(vf::hex(want)) + "}");
      return;
    }
  }
  // A * A^-1 = I (entries <= 2, |det| >= 1: well conditioned); tolerance scaled by |A||A^-1|
  const auto P = A * inv.value();
  T p[9];
  vf::comps(PhQ::Dyad<T>(P), p);
  f128 na = 0, ni = 0;
  T ac[9], ic[9];
  vf::comps(PhQ::Dyad<T>(A), ac);
  vf::comps(PhQ::Dyad<T>(inv.value()), ic);
  for (int i = 0; i < 9; i++) {
    na = fmaxq(na, fabsq((f128)ac[i]));
    ni = fmaxq(ni, fabsq((f128)ic[i]));
  }
  const f128 tol = 16 * 3 * na * ni * (f128)std::numeric_limits<T>::epsilon();
  for (int i = 0; i < 9; i++)
    if (!(fabsq((f128)p[i] - (i % 4 == 0 ? 1 : 0)) <= tol)) {
      vf::viol(key + "|times-original-not-identity", "{\"integer_tensor\":" + vf::comps_hex(A0) + ",\"scale_exponent\":" + std::to_string(e) + ",\"product\":" + vf::comps_hex(PhQ::Dyad<T>(P)) + "}");
      return;
    }
}

// ------------------------------------------------------------------ grids
template <class T>
PhQ::SymmetricDyad<T> sd_at(long k, int base, int off) {
  T c[6];
  for (int i = 0; i < 6; i++) {
    c[i] = (T)((int)(k % base) - off);
    k /= base;
  }
  return PhQ::SymmetricDyad<T>(c[0], c[1], c[2], c[3], c[4], c[5]);
}
template <class T>
PhQ::Dyad<T> d_at(long k, int base, int off) {
  T c[9];
  for (int i = 0; i < 9; i++) {
    c[i] = (T)((int)(k % base) - off);
    k /= base;
  }
  return PhQ::Dyad<T>(c[0], c[1], c[2], c[3], c[4], c[5], c[6], c[7], c[8]);
}
static long ipow(long b, int e) {
  long r = 1;
  while (e--) r *= b;
  return r;
}
static bool mine(long k) { return (k % NPARTS) == PART; }

template <class T>
void integer_grids() {
  using V = PhQ::Vector<T>;
  using PV = PhQ::PlanarVector<T>;
  using SD = PhQ::SymmetricDyad<T>;
  using D = PhQ::Dyad<T>;
  // vectors over {-3..3}^3, all ordered pairs
  std::vector<V> vs;
  std::vector<PV> pvs;
  for (int x = -3; x <= 3; x++)
    for (int y = -3; y <= 3; y++) {
      pvs.emplace_back((T)x, (T)y);
      for (int z = -3; z <= 3; z++) vs.emplace_back((T)x, (T)y, (T)z);
    }
  long idx = 0;
  for (auto& a : vs)
    for (auto& b : vs) {
      if (!mine(idx++)) continue;
      vec_pair<LL, T>("Vector,Vector", a, b);
      vec_arith<LL, T>("Vector", a, b, (T)-3);
      // both operands the SAME object (v.Dot(v), v.Cross(v), v.Dyadic(v), v + v): a shortcut keyed on the address is met here
      if (&a == &b) {
        vec_pair<LL, T>("Vector,Vector (one object)", a, a);
        vec_arith<LL, T>("Vector (one object)", a, a, (T)2);
      }
    }
  for (auto& a : pvs)
    for (auto& b : pvs) {
      if (!mine(idx++)) continue;
      vec_pair<LL, T>("PlanarVector,PlanarVector", a, b);
      vec_arith<LL, T>("PlanarVector", a, b, (T)5);
      if (&a == &b) {
        vec_pair<LL, T>("PlanarVector,PlanarVector (one object)", a, a);
        vec_arith<LL, T>("PlanarVector (one object)", a, a, (T)2);
      }
      // embeddings: Vector(PlanarVector) and back
      expect<T>("Vector(PlanarVector)", V(a), rv<LL>(a), DESC1(a));
      expect<T>("PlanarVector(Vector)", PV(V(a)), rv<LL>(a), DESC1(a));
      if constexpr (std::is_assignable_v<V&, const PV&>) {
        V g(7, 8, 9);
        g = a;
        expect<T>("Vector = PlanarVector", g, rv<LL>(a), DESC1(a));
      }
      if constexpr (std::is_assignable_v<PV&, const V&>) {
        PV g(7, 8);
        g = V(b.x(), b.y(), (T)5);
        expect<T>("PlanarVector = Vector", g, rv<LL>(b), DESC1(b));
      }
    }
  for (auto& a : vs)
    if (mine(idx++)) {
      vec_div_mag<T>("Vector", a, (T)3);
      vec_div_mag<T>("Vector", a, (T)-0.5);
      expect<T>("PlanarVector(Vector)", PV(a), RV<LL>{{(LL)a.x(), (LL)a.y(), 0}}, DESC1(a));
    }
  for (auto& a : pvs)
    if (mine(idx++)) vec_div_mag<T>("PlanarVector", a, (T)7);
  // a few vectors for matrix-vector products (asymmetric, all slots distinct)
  const V mv[] = {V(1, 0, 0), V(0, 1, 0), V(0, 0, 1), V(1, 2, 3), V(-2, 3, -1), V(3, -1, 2), V(1, 1, 1)};
  const PV mpv[] = {PV(1, 0), PV(0, 1), PV(2, -3), PV(-1, 2)};
  // symmetric dyads over {-2..2}^6
  const long nsd = ipow(5, 6);
  std::vector<int> scales = std::is_same_v<T, float> ? std::vector<int>{0, -8, -20, -30, 20} : std::vector<int>{0, -8, -20, -40, -100, 20};
  scales.push_back((std::numeric_limits<T>::min_exponent - 6) / 3 - 1);  // 2^3e just below the smallest normal number: float -44, double -343, long double -5463
  for (long k = 0; k < nsd; k++) {
    if (!mine(k)) continue;
    const SD A = sd_at<T>(k, 5, 2);
    mat_unary<LL, T>("SymmetricDyad", A);
    for (int e : scales) inverse_check<T>("SymmetricDyad", A, e);
    for (auto& v : mv) expect<T>("SymmetricDyad*Vector", A * v, r_matvec(rm<LL>(A), rv<LL>(v)), DESC2(A, v));
    for (auto& v : mpv) expect<T>("SymmetricDyad*PlanarVector", A * v, r_matvec(rm<LL>(A), rv<LL>(v)), DESC2(A, v));
    // the symmetric type gives the same results as its embedding in the general dyad
    const D E(A);
    expect<T>("Dyad(SymmetricDyad)", E, rm<LL>(A), DESC1(A));
    expect<T>("Dyad(SymmetricDyad).Determinant", E.Determinant(), r_det(rm<LL>(A)), DESC1(A));
    // ... by assignment over a previous, different dyad as well as by construction
    if constexpr (std::is_assignable_v<D&, const SD&>) {
      D G = d_at<T>((k * 11 + 5) % ipow(3, 9), 3, 1);
      G = A;
      expect<T>("Dyad = SymmetricDyad", G, rm<LL>(A), DESC1(A));
      expect<T>("(Dyad = SymmetricDyad).Determinant", G.Determinant(), r_det(rm<LL>(A)), DESC1(A));
    }
    if (!E.IsSymmetric()) vf::viol(std::string("tensor|Dyad(SymmetricDyad).IsSymmetric|") + vf::TName<T>::value, "{\"operands\":" + vf::comps_hex(A) + "}");
    mat_arith<LL, T>("SymmetricDyad", A, sd_at<T>((k * 7 + 3) % nsd, 5, 2), (T)-2);
    if (k % 7 == 0) mat_arith<LL, T>("SymmetricDyad (one object)", A, A, (T)3);
  }
  // dyads over {-1,0,1}^9 (thorough: unary ops also over {-2..2}^9 subsampled by part)
  const long nd = ipow(3, 9);
  for (long k = 0; k < nd; k++) {
    if (!mine(k)) continue;
    const D A = d_at<T>(k, 3, 1);
    mat_unary<LL, T>("Dyad", A);
    for (int e : scales) inverse_check<T>("Dyad", A, e);
    for (auto& v : mv) expect<T>("Dyad*Vector", A * v, r_matvec(rm<LL>(A), rv<LL>(v)), DESC2(A, v));
    for (auto& v : mpv) expect<T>("Dyad*PlanarVector", A * v, r_matvec(rm<LL>(A), rv<LL>(v)), DESC2(A, v));
    const bool sym = A.xy() == A.yx() && A.xz() == A.zx() && A.yz() == A.zy();
    if (A.IsSymmetric() != sym) vf::viol(std::string("tensor|Dyad.IsSymmetric|") + vf::TName<T>::value, "{\"operands\":" + vf::comps_hex(A) + "}");
    mat_arith<LL, T>("Dyad", A, d_at<T>((k * 5 + 11) % nd, 3, 1), (T)3);
    if (k % 7 == 0) mat_arith<LL, T>("Dyad (one object)", A, A, (T)-2);
  }
  if (thorough) {
    const long nd5 = ipow(5, 9);
    for (long k = 0; k < nd5; k++) {
      if (!mine(k)) continue;
      mat_unary<LL, T>("Dyad", d_at<T>(k, 5, 2));
    }
  }
  // binary products. SymmetricDyad x SymmetricDyad: all ordered pairs over {-1,0,1}^6
  const long ns3 = ipow(3, 6);
  for (long i = 0; i < ns3; i++) {
    if (!mine(i)) continue;
    const SD A = sd_at<T>(i, 3, 1);
    const RM<LL> ra = rm<LL>(A);
    for (long j = 0; j < ns3; j++) {
      const SD B = sd_at<T>(j, 3, 1);
      expect<T>("SymmetricDyad*SymmetricDyad", A * B, r_matmul(ra, rm<LL>(B)), DESC2(A, B));
    }
    // SymmetricDyad x Dyad and Dyad x SymmetricDyad: all {0,1}^9 dyads plus signed generic ones
    for (long j = 0; j < 512; j++) {
      const D B = d_at<T>(j, 2, 0);
      expect<T>("SymmetricDyad*Dyad", A * B, r_matmul(ra, rm<LL>(B)), DESC2(A, B));
      expect<T>("Dyad*SymmetricDyad", B * A, r_matmul(rm<LL>(B), ra), DESC2(B, A));
    }
    const D G[] = {D(1, 2, 3, 4, 5, 6, 7, 8, 9), D(-1, 2, -3, 5, -7, 11, -13, 17, -19), D(0, 1, 0, 0, 0, 1, 1, 0, 0), D(2, 0, -1, 1, 3, 0, 0, -2, 1)};
    for (auto& B : G) {
      expect<T>("SymmetricDyad*Dyad", A * B, r_matmul(ra, rm<LL>(B)), DESC2(A, B));
      expect<T>("Dyad*SymmetricDyad", B * A, r_matmul(rm<LL>(B), ra), DESC2(B, A));
    }
  }
  // Dyad x Dyad: quick = all ordered pairs of {0,1}^9 and {-1,0,1}^9 x 13 selected; thorough = all pairs of {-1,0,1}^9
  if (!thorough) {
    for (long i = 0; i < 512; i++) {
      if (!mine(i)) continue;
      const D A = d_at<T>(i, 2, 0);
      const RM<LL> ra = rm<LL>(A);
      for (long j = 0; j < 512; j++) {
        const D B = d_at<T>(j, 2, 0);
        expect<T>("Dyad*Dyad", A * B, r_matmul(ra, rm<LL>(B)), DESC2(A, B));
      }
    }
    std::vector<D> sel;
    for (int i = 0; i < 9; i++) {  // basis dyads E_ij
      std::array<T, 9> e{};
      e[i] = 1;
      sel.push_back(D(e));
    }
    sel.push_back(D(1, 2, 3, 4, 5, 6, 7, 8, 9));
    sel.push_back(D(-1, 2, -3, 5, -7, 11, -13, 17, -19));
    sel.push_back(D(2, 0, -1, 1, 3, 0, 0, -2, 1));
    sel.push_back(D(0, 1, 0, 0, 0, 1, 1, 0, 0));
    for (long k = 0; k < nd; k++) {
      if (!mine(k)) continue;
      const D A = d_at<T>(k, 3, 1);
      const RM<LL> ra = rm<LL>(A);
      for (auto& B : sel) {
        expect<T>("Dyad*Dyad", A * B, r_matmul(ra, rm<LL>(B)), DESC2(A, B));
        expect<T>("Dyad*Dyad", B * A, r_matmul(rm<LL>(B), ra), DESC2(B, A));
      }
    }
  } else {
    for (long i = 0; i < nd; i++) {
      if (!mine(i)) continue;
      const D A = d_at<T>(i, 3, 1);
      const RM<LL> ra = rm<LL>(A);
      for (long j = 0; j < nd; j++) {
        const D B = d_at<T>(j, 3, 1);
        T got[9];
        vf::comps(A * B, got);
        const RM<LL> r = r_matmul(ra, rm<LL>(B));
        vf::stat("integer_cases");
        for (int c = 0; c < 9; c++)
          if (!(got[c] == (T)r.m[c / 3][c % 3])) {
            vf::viol(std::string("tensor|Dyad*Dyad|") + vf::TName<T>::value + "|integer|component" + std::to_string(c), "{\"operands\":[" + vf::comps_hex(A) + "," + vf::comps_hex(B) + "]}");
            break;
          }
      }
    }
  }
}

// ------------------------------------------------------------------ real-valued inputs
template <class T>
void real_inputs() {
  using V = PhQ::Vector<T>;
  using PV = PhQ::PlanarVector<T>;
  using SD = PhQ::SymmetricDyad<T>;
  using D = PhQ::Dyad<T>;
  // generic tensors: distinct, non-dyadic components of both signs and different magnitudes
  unsigned long long s = 0x243F6A8885A308D3ULL;
  auto nextv = [&]() {
    s = s * 6364136223846793005ULL + 1442695040888963407ULL;
    long double u = (long double)(s >> 11) / (long double)(1ULL << 53);  // [0,1)
    s = s * 6364136223846793005ULL + 1442695040888963407ULL;
    int e = (int)((s >> 33) % 9) - 4;
    long double m = (0.3L + 1.7L * u) * ((s >> 20) & 1 ? -1 : 1);
    return (T)std::ldexp(m, e);
  };
  const int N = thorough ? 4096 : 512;
  for (int it = 0; it < N; it++) {
    T c[30];
    for (auto& x : c) x = nextv();
    if ((it % NPARTS) != PART) continue;
    const V a(c[0], c[1], c[2]), b(c[3], c[4], c[5]);
    const PV pa(c[6], c[7]), pb(c[8], c[9]);
    const SD A(c[10], c[11], c[12], c[13], c[14], c[15]), B2(c[1], c[3], c[5], c[7], c[9], c[11]);
    const D E(c[16], c[17], c[18], c[19], c[20], c[21], c[22], c[23], c[24]), F(c[25], c[26], c[27], c[28], c[29], c[0], c[2], c[4], c[6]);
    vec_pair<Tr, T>("Vector,Vector", a, b);
    vec_pair<Tr, T>("PlanarVector,PlanarVector", pa, pb);
    // the same vectors many binades away (lengths 1e-18 .. 1e18, 1e-16 .. 1e16 in float): magnitude to 4 ulp of the exact root
    for (int e : {-60, -40, -25, -18, 18, 25, 40, 60}) {
      if (std::is_same_v<T, float> && (e > 55 || e < -55)) e = e > 0 ? 55 : -55;
      const V as(std::ldexp(c[0], e), std::ldexp(c[1], e), std::ldexp(c[2], e));
      const PV ps(std::ldexp(c[6], e), std::ldexp(c[7], e));
      const f128 s3 = (f128)as.x() * as.x() + (f128)as.y() * as.y() + (f128)as.z() * as.z(), s2 = (f128)ps.x() * ps.x() + (f128)ps.y() * ps.y();
      vf::stat("real_cases", 2);
      if (!(vf::ulps<T>(as.Magnitude(), sqrtq(s3)) <= 4.0))
        vf::viol(std::string("tensor|Vector.Magnitude|") + vf::TName<T>::value + "|scaled", "{\"operands\":" + vf::comps_hex(as) + ",\"observed\":" + vf::jstr(vf::dec(as.Magnitude())) + "}");
      if (!(vf::ulps<T>(ps.Magnitude(), sqrtq(s2)) <= 4.0))
        vf::viol(std::string("tensor|PlanarVector.Magnitude|") + vf::TName<T>::value + "|scaled", "{\"operands\":" + vf::comps_hex(ps) + ",\"observed\":" + vf::jstr(vf::dec(ps.Magnitude())) + "}");
    }
    // exactly singular tensors with non-integer components (a repeated column or row, one a power-of-two multiple of another):
    // the inverse is absent exactly when Determinant() is zero - the two must be the same decision
    {
      const T u[3] = {c[0], c[1], c[2]}, w[3] = {c[3], c[4], c[5]};
      const D sing[] = {D(u[0], u[0], w[0], u[1], u[1], w[1], u[2], u[2], w[2]),          D(u[0], w[0], u[0], u[1], w[1], u[1], u[2], w[2], u[2]),
                        D(w[0], u[0], 2 * u[0], w[1], u[1], 2 * u[1], w[2], u[2], 2 * u[2]), D(u[0], u[1], u[2], u[0], u[1], u[2], w[0], w[1], w[2]),
                        D(u[0], u[1], u[2], w[0], w[1], w[2], u[0] / 4, u[1] / 4, u[2] / 4), D(w[0], w[1], w[2], u[0], u[1], u[2], u[0], u[1], u[2])};
      for (const D& M : sing) {
        vf::stat("inverse_cases");
        if (M.Inverse().has_value() != (M.Determinant() != (T)0))
          vf::viol(std::string("tensor|Dyad.Inverse|") + vf::TName<T>::value + "|presence-disagrees-with-Determinant", "{\"tensor\":" + vf::comps_hex(M) + ",\"determinant\":" + vf::jstr(vf::hex(M.Determinant())) +
                                                                                                                         ",\"inverse_present\":" + (M.Inverse().has_value() ? "true" : "false") + "}");
      }
    }
    vec_arith<Tr, T>("Vector", a, b, c[9]);
    vec_arith<Tr, T>("PlanarVector", pa, pb, c[5]);
    // direction-typed arguments (components are not integers): same formulas
    const PhQ::Direction<T> d(c[3], c[4], c[5]);
    const PhQ::PlanarDirection<T> pd(c[8], c[9]);
    vec_pair<Tr, T>("Vector,Direction", a, d);
    vec_pair<Tr, T>("Direction,Vector", d, a);
    vec_pair<Tr, T>("PlanarVector,PlanarDirection", pa, pd);
    vec_pair<Tr, T>("PlanarDirection,PlanarVector", pd, pa);
    mat_unary<Tr, T>("SymmetricDyad", A);
    mat_unary<Tr, T>("Dyad", E);
    mat_arith<Tr, T>("SymmetricDyad", A, B2, c[7]);
    mat_arith<Tr, T>("Dyad", E, F, c[8]);
    expect<T>("SymmetricDyad*Vector", A * a, r_matvec(rm<Tr>(A), rv<Tr>(a)), DESC2(A, a));
    expect<T>("SymmetricDyad*PlanarVector", A * pa, r_matvec(rm<Tr>(A), rv<Tr>(pa)), DESC2(A, pa));
    expect<T>("Dyad*Vector", E * a, r_matvec(rm<Tr>(E), rv<Tr>(a)), DESC2(E, a));
    expect<T>("Dyad*PlanarVector", E * pa, r_matvec(rm<Tr>(E), rv<Tr>(pa)), DESC2(E, pa));
    expect<T>("SymmetricDyad*SymmetricDyad", A * B2, r_matmul(rm<Tr>(A), rm<Tr>(B2)), DESC2(A, B2));
    expect<T>("SymmetricDyad*Dyad", A * E, r_matmul(rm<Tr>(A), rm<Tr>(E)), DESC2(A, E));
    expect<T>("Dyad*SymmetricDyad", E * A, r_matmul(rm<Tr>(E), rm<Tr>(A)), DESC2(E, A));
    expect<T>("Dyad*Dyad", E * F, r_matmul(rm<Tr>(E), rm<Tr>(F)), DESC2(E, F));
    // inverse of a well-conditioned real tensor: A * A^-1 = I to cond-scaled tolerance; small
    // determinants (tensor scaled down) must still be inverted
    for (int e : {0, -10, std::is_same_v<T, float> ? -25 : -60}) {
      const T sc = std::ldexp((T)1, e);
      const D Es = (D(1, 0, 0, 0, 1, 0, 0, 0, 1) * (T)4 + E * (T)0.25) * sc;  // diagonally dominant
      const SD As = (SD(1, 0, 0, 1, 0, 1) * (T)4 + A * (T)0.25) * sc;
      const auto i1 = Es.Inverse();
      const auto i2 = As.Inverse();
      vf::stat("inverse_cases", 2);
      if (!i1.has_value() || !i2.has_value()) {
        vf::viol(std::string("tensor|") + (i1.has_value() ? "SymmetricDyad" : "Dyad") + ".Inverse|" + vf::TName<T>::value + "|absent-for-nonsingular",
                 "{\"tensor\":" + (i1.has_value() ? vf::comps_hex(As) : vf::comps_hex(Es)) + ",\"scale_exponent\":" + std::to_string(e) + "}");
        continue;
      }
      auto ident = [&](const D& M, const D& Mi, const char* nm) {
        T p[9], mc[9], ic[9];
        vf::comps(M * Mi, p);
        vf::comps(M, mc);
        vf::comps(Mi, ic);
        f128 na = 0, ni = 0;
        for (int k = 0; k < 9; k++) {
          na = fmaxq(na, fabsq((f128)mc[k]));
          ni = fmaxq(ni, fabsq((f128)ic[k]));
        }
        if (na * ni > 1000) return;  // not well conditioned: the property does not speak about it
        const f128 tol = 16 * 3 * na * ni * (f128)std::numeric_limits<T>::epsilon();
        for (int k = 0; k < 9; k++)
          if (!(fabsq((f128)p[k] - (k % 4 == 0 ? 1 : 0)) <= tol)) {
            vf::viol(std::string("tensor|") + nm + ".Inverse|" + vf::TName<T>::value + "|real|times-original-not-identity", "{\"tensor\":" + vf::comps_hex(M) + "}");
            return;
          }
      };
      ident(Es, i1.value(), "Dyad");
      ident(D(As), D(i2.value()), "SymmetricDyad");
    }
  }
}

// in-place scaling with a scalar that refers into the tensor's own storage: the textbook result uses the OLD value of that component
template <class T, class X, class REF>
void aliasing(const char* tag, const X& a, REF&& ref_of) {
  constexpr int n = vf::count_of<X>();
  T c[9];
  vf::comps(a, c);
  for (int k = 0; k < n; k++) {
    if (c[k] == 0) continue;
    X m = a, d = a;
    m *= ref_of(m, k);
    d /= ref_of(d, k);
    T gm[9], gd[9];
    vf::comps(m, gm);
    vf::comps(d, gd);
    vf::stat("integer_cases", 2);
    for (int i = 0; i < n; i++)
      if (!(gm[i] == c[i] * c[k]) || !(gd[i] == c[i] / c[k])) {
        vf::viol(std::string("tensor|") + tag + " scaled in place by a reference to its own component|" + vf::TName<T>::value,
                 "{\"operand\":" + vf::comps_hex(a) + ",\"component_index\":" + std::to_string(k) + ",\"after_times\":" + vf::comps_hex(m) + ",\"after_divide\":" + vf::comps_hex(d) + "}");
        return;
      }
  }
}
template <class T>
void aliasing_all() {
  using namespace PhQ;
  if (PART != 0) return;
  const PlanarVector<T> pv((T)2, (T)-3);
  const Vector<T> v((T)2, (T)-3, (T)5);
  const SymmetricDyad<T> sd((T)2, (T)-3, (T)5, (T)7, (T)-11, (T)13);
  const Dyad<T> d((T)2, (T)-3, (T)5, (T)7, (T)-11, (T)13, (T)17, (T)-19, (T)23);
  aliasing<T>("PlanarVector", pv, [](PlanarVector<T>& x, int k) -> const T& { return x.Mutable_x_y()[k]; });
  aliasing<T>("Vector", v, [](Vector<T>& x, int k) -> const T& { return x.Mutable_x_y_z()[k]; });
  aliasing<T>("SymmetricDyad", sd, [](SymmetricDyad<T>& x, int k) -> const T& { return x.Mutable_xx_xy_xz_yy_yz_zz()[k]; });
  aliasing<T>("Dyad", d, [](Dyad<T>& x, int k) -> const T& { return x.Mutable_xx_xy_xz_yx_yy_yz_zx_zy_zz()[k]; });
}

// A direction operand behaves in every product as the (unit) vector it stores: each overload that takes a Direction /
// PlanarDirection is compared with the same call on direction.Value().
// 4 ulp of the largest magnitude involved (the two sides may round differently; on this tree they agree bitwise).
template <class T, class L, class R>
void same_as(const char* what, const L& with_direction, const R& with_value, T scale) {
  static_assert(vf::count_of<L>() == vf::count_of<R>() || true);
  constexpr int n = vf::count_of<L>() < vf::count_of<R>() ? vf::count_of<L>() : vf::count_of<R>();
  T a[9], b[9];
  vf::comps(with_direction, a);
  vf::comps(with_value, b);
  vf::stat("direction_operand_cases");
  for (int i = 0; i < n; i++)
    if (!(std::fabs((double)(a[i] - b[i])) <= 4.0 * (double)std::numeric_limits<T>::epsilon() * (double)scale)) {
      vf::viol(std::string("tensor|direction-operand|") + what + "|" + vf::TName<T>::value,
               std::string("{\"operation\":") + vf::jstr(what) + ",\"with_direction\":" + vf::comps_hex(with_direction) + ",\"with_its_value\":" + vf::comps_hex(with_value) + "}");
      return;
    }
}
template <class T>
void direction_operands() {
  using namespace PhQ;
  const T vs[][3] = {{1, 2, 3}, {-2, 3, -1}, {3, -1, 2}, {0, 0, -4}, {(T)0.3L, (T)-1.7L, (T)2.9L}, {5, 0, 1}};
  long idx = 0;
  for (const auto& a : vs)
    for (const auto& b : vs) {
      if (!mine(idx++)) continue;
      const Vector<T> v(a[0], a[1], a[2]);
      const Direction<T> d(b[0], b[1], b[2]), e(a[2], a[0], -a[1]);
      const PlanarVector<T> pv(a[0], a[1]);
      const PlanarDirection<T> pd(b[1], b[2] + 1), pe(a[1], -a[0] + (T)0.5);
      const Dyad<T> M(a[0], a[1], a[2], b[0], b[1], b[2], a[2], b[0], a[1]);
      const SymmetricDyad<T> S(a[0], a[1], a[2], b[0], b[1], b[2]);
      const T sc = 6;
      same_as<T>("Vector.Dot(Direction)", Vector<T>(v.Dot(d), 0, 0), Vector<T>(v.Dot(d.Value()), 0, 0), 3 * sc);
      same_as<T>("Direction.Dot(Vector)", Vector<T>(d.Dot(v), 0, 0), Vector<T>(d.Value().Dot(v), 0, 0), 3 * sc);
      same_as<T>("Direction.Dot(Direction)", Vector<T>(d.Dot(e), 0, 0), Vector<T>(d.Value().Dot(e.Value()), 0, 0), 3);
      same_as<T>("Vector.Cross(Direction)", v.Cross(d), v.Cross(d.Value()), 2 * sc);
      same_as<T>("Direction.Cross(Vector)", d.Cross(v), d.Value().Cross(v), 2 * sc);
      same_as<T>("Vector.Dyadic(Direction)", v.Dyadic(d), v.Dyadic(d.Value()), sc);
      same_as<T>("Direction.Dyadic(Vector)", d.Dyadic(v), d.Value().Dyadic(v), sc);
      same_as<T>("Direction.Dyadic(Direction)", d.Dyadic(e), d.Value().Dyadic(e.Value()), 1);
      same_as<T>("Dyad*Direction", M * d, M * d.Value(), 3 * sc);
      same_as<T>("SymmetricDyad*Direction", S * d, S * d.Value(), 3 * sc);
      same_as<T>("Vector(magnitude, Direction)", Vector<T>((T)2.5, d), d.Value() * (T)2.5, 3);
      same_as<T>("PlanarVector.Dot(PlanarDirection)", Vector<T>(pv.Dot(pd), 0, 0), Vector<T>(pv.Dot(pd.Value()), 0, 0), 2 * sc);
      same_as<T>("PlanarDirection.Dot(PlanarVector)", Vector<T>(pd.Dot(pv), 0, 0), Vector<T>(pd.Value().Dot(pv), 0, 0), 2 * sc);
      same_as<T>("PlanarDirection.Dot(PlanarDirection)", Vector<T>(pd.Dot(pe), 0, 0), Vector<T>(pd.Value().Dot(pe.Value()), 0, 0), 2);
      same_as<T>("PlanarVector.Cross(PlanarDirection)", pv.Cross(pd), pv.Cross(pd.Value()), 2 * sc);
      same_as<T>("PlanarDirection.Cross(PlanarVector)", pd.Cross(pv), pd.Value().Cross(pv), 2 * sc);
      same_as<T>("PlanarVector.Dyadic(PlanarDirection)", pv.Dyadic(pd), pv.Dyadic(pd.Value()), sc);
      same_as<T>("PlanarDirection.Dyadic(PlanarVector)", pd.Dyadic(pv), pd.Value().Dyadic(pv), sc);
      same_as<T>("PlanarDirection.Dyadic(PlanarDirection)", pd.Dyadic(pe), pd.Value().Dyadic(pe.Value()), 1);
      same_as<T>("Dyad*PlanarDirection", M * pd, M * pd.Value(), 3 * sc);
      same_as<T>("SymmetricDyad*PlanarDirection", S * pd, S * pd.Value(), 3 * sc);
      same_as<T>("PlanarVector(magnitude, PlanarDirection)", PlanarVector<T>((T)2.5, pd), pd.Value() * (T)2.5, 3);
    }
}

template <class T>
void all() {
  direction_operands<T>();
  aliasing_all<T>();
  integer_grids<T>();
  real_inputs<T>();
  if (PART == 0 && std::is_same_v<T, double>) {
    PhQ::SymmetricDyad<double> A(1, 0, 0, 2, 0, 3), B(1, 1, 1, 1, 1, 1);
    vf::sample("{\"operation\":\"SymmetricDyad*SymmetricDyad\",\"a\":" + vf::comps_hex(A) + ",\"b\":" + vf::comps_hex(B) + ",\"result\":" + vf::comps_hex(A * B) + "}");
  }
}
int main(int argc, char** argv) {
  thorough = std::getenv("VERIF_TIER") && std::string(std::getenv("VERIF_TIER")) == "thorough";
  const std::string t = argc > 1 ? argv[1] : "double";
  PART = argc > 2 ? std::atoi(argv[2]) : 0;
  NPARTS = argc > 3 ? std::atoi(argv[3]) : 1;
  if (t == "float") all<float>();
  if (t == "double") all<double>();
  if (t == "longdouble") all<long double>();
  return 0;
}
