// c10_common.hpp - oracle for unit directions.
#pragma once
#include "probe.hpp"
#include "vf.hpp"
namespace c10 {
using vf::f128;
static bool thorough() {
  static const bool t = std::getenv("VERIF_TIER") && std::string(std::getenv("VERIF_TIER")) == "thorough";
  return t;
}
// d: stored components of the direction (n = 2 or 3), v: the input vector it was built from
template <class T>
void check_direction(const std::string& path, const T* d, const T* v, int n) {
  const f128 eps = std::numeric_limits<T>::epsilon();
  vf::stat("directions");
  bool zero = true;
  for (int i = 0; i < n; i++) zero = zero && v[i] == 0;
  auto fail = [&](const char* why, double measure) {
    std::string vs = "[", ds = "[";
    for (int i = 0; i < n; i++) {
      vs += (i ? "," : "") + vf::jstr(vf::hex(v[i]));
      ds += (i ? "," : "") + vf::jstr(vf::hex(d[i]));
    }
    vf::viol("direction|" + path + "|" + vf::TName<T>::value + "|" + why, "{\"path\":" + vf::jstr(path) + ",\"input\":" + vs + "],\"direction\":" + ds + "],\"measure\":" + std::to_string(measure) + "}");
  };
  if (zero) {
    for (int i = 0; i < n; i++)
      if (!(d[i] == 0 && !std::signbit(d[i]))) {
        fail("zero-vector-not-exactly-zero", 0);
        return;
      }
    return;
  }
  f128 n2 = 0, dot = 0, vmax = 0;
  for (int i = 0; i < n; i++) {
    n2 += (f128)d[i] * (f128)d[i];
    vmax = fmaxq(vmax, fabsq((f128)v[i]));
  }
  f128 vn[3] = {0, 0, 0}, dn[3] = {0, 0, 0};
  for (int i = 0; i < n; i++) {
    vn[i] = (f128)v[i] / vmax;
    dn[i] = d[i];
    dot += vn[i] * dn[i];
  }
  const double nerr = (double)(fabsq(sqrtq(n2) - 1) / eps);
  vf::maxf(std::string("max_norm_error_eps_") + vf::TName<T>::value, nerr);
  if (!(nerr <= 4.0)) return fail("length-not-one", nerr);
  if (!(dot > 0)) return fail("points-the-other-way", (double)dot);
  const f128 cx = dn[1] * vn[2] - dn[2] * vn[1], cy = dn[2] * vn[0] - dn[0] * vn[2], cz = dn[0] * vn[1] - dn[1] * vn[0];
  f128 vlen = sqrtq(vn[0] * vn[0] + vn[1] * vn[1] + vn[2] * vn[2]);
  const double cerr = (double)(sqrtq(cx * cx + cy * cy + cz * cz) / (vlen * eps));
  vf::maxf(std::string("max_cross_error_eps_") + vf::TName<T>::value, cerr);
  if (!(cerr <= 4.0)) return fail("not-parallel-to-input", cerr);
}
}  // namespace c10
