// c10_core.cpp - every construction path of Direction / PlanarDirection x 3 numeric types over
// integer vectors {-6..6}^D, near-degenerate vectors, and ~200 binades of length.
// usage: c10_core <float|double|longdouble> <part> <nparts>
#include <PhQ/Direction.hpp>
#include <PhQ/PlanarDirection.hpp>

#include <cerrno>

#include "c10_common.hpp"
using namespace PhQ;

template <class T>
struct Inputs {
  std::vector<std::array<T, 3>> v3;
  std::vector<std::array<T, 2>> v2;
  std::vector<int> binades;
  Inputs() {
    for (int x = -6; x <= 6; x++)
      for (int y = -6; y <= 6; y++) {
        if (x || y) v2.push_back({(T)x, (T)y});
        for (int z = -6; z <= 6; z++)
          if (x || y || z) v3.push_back({(T)x, (T)y, (T)z});
      }
    const int p = std::numeric_limits<T>::digits;
    for (int k = 1; k <= p + 3; k++) {
      const T s = std::ldexp((T)1, -k);
      v3.push_back({(T)1, s, (T)0});
      v3.push_back({(T)1, s, s});
      v3.push_back({-s, (T)0, (T)-1});
      v3.push_back({(T)1, (T)1 + s, (T)1 - s});
      v2.push_back({(T)1, s});
      v2.push_back({-s, (T)-1});
    }
    // lengths next to one: 1 +- 2^-j for every j down to the last place, along an axis and along generic directions (a
    // direction is where "already a unit vector" shortcuts would sit)
    for (int j = 1; j <= p + 1; j++)
      for (int sg : {1, -1}) {
        const T f = (T)1 + sg * std::ldexp((T)1, -j);
        v3.push_back({f, (T)0, (T)0});
        v3.push_back({(T)0, (T)0, -f});
        v3.push_back({(T)0.6L * f, (T)-0.8L * f, (T)0});
        v3.push_back({(T)(2.0L / 3) * f, (T)(2.0L / 3) * f, (T)(-1.0L / 3) * f});
        v2.push_back({(T)0, f});
        v2.push_back({(T)-0.8L * f, (T)0.6L * f});
      }
    // every 8th binade (quick: every 32nd) for which the squared length neither overflows nor underflows:
    // components up to 6*sqrt(3) ~ 2^3.4 at the top, down to 2^-(p+3) relative at the bottom
    const int hi = std::numeric_limits<T>::max_exponent / 2 - 5, lo = std::numeric_limits<T>::min_exponent / 2 + 3;
    const int stepb = c10::thorough() ? 8 : 32;
    for (int e = lo; e <= hi; e += stepb) binades.push_back(e);
    binades.push_back(hi);
    binades.push_back(0);
  }
};

template <class T>
void all(int part, int nparts) {
  const Inputs<T> in;
  long idx = 0;
  // ---- three dimensions
  for (const auto& v : in.v3) {
    if ((idx++ % nparts) != part) continue;
    T base[3];
    bool have = false;
    T mn = std::fabs(v[0]) > 0 ? std::fabs(v[0]) : (T)1;
    for (int i = 0; i < 3; i++)
      if (v[i] != 0 && std::fabs(v[i]) < mn) mn = std::fabs(v[i]);
    int emn;
    std::frexp(mn, &emn);  // smallest non-zero component ~ 2^emn
    for (int e : in.binades) {
      // keep the smallest non-zero component's square a normal number
      if (2 * (e + emn - 1) < std::numeric_limits<T>::min_exponent + 2 && e != 0) continue;
      T s[3] = {std::ldexp(v[0], e), std::ldexp(v[1], e), std::ldexp(v[2], e)};
      T d[3];
      const Direction<T> d1(s[0], s[1], s[2]);
      vf::comps(d1, d);
      c10::check_direction<T>("Direction(x,y,z)", d, s, 3);
      if (!have) {
        for (int i = 0; i < 3; i++) base[i] = d[i];
        have = true;
        if (e != in.binades.back()) {
          // first binade visited serves as the base of the power-of-two invariance
        }
      } else {
        vf::stat("rescaling_checks");
        for (int i = 0; i < 3; i++)
          if (!vf::same_bits(d[i], base[i])) {
            vf::viol(std::string("direction|power-of-two-rescaling-changes-direction|") + vf::TName<T>::value,
                     "{\"input\":[" + vf::jstr(vf::hex(v[0])) + "," + vf::jstr(vf::hex(v[1])) + "," + vf::jstr(vf::hex(v[2])) + "],\"binade\":" + std::to_string(e) + "}");
            break;
          }
      }
      // every other construction path must satisfy the same oracle and store the same direction up to rounding (2 ulp of 1
      // per component; the statement does not ask the paths to be bit-identical)
      auto same = [&](const char* path, const Direction<T>& o) {
        T c[3];
        vf::comps(o, c);
        vf::stat("path_comparisons");
        c10::check_direction<T>(path, c, s, 3);
        for (int i = 0; i < 3; i++)
          if (std::fabs((double)(c[i] - d[i])) > 2 * (double)std::numeric_limits<T>::epsilon()) {
            vf::viol(std::string("direction|path-disagrees|") + path + "|" + vf::TName<T>::value,
                     "{\"input\":[" + vf::jstr(vf::hex(s[0])) + "," + vf::jstr(vf::hex(s[1])) + "," + vf::jstr(vf::hex(s[2])) + "]}");
            break;
          }
      };
      for (int stale : {ERANGE, EDOM}) {
        // what an unrelated earlier call left in errno does not matter
        errno = stale;
        const Direction<T> de(s[0], s[1], s[2]);
        errno = stale;
        const Direction<T> dv(Vector<T>(s[0], s[1], s[2]));
        errno = 0;
        same("Direction(x,y,z) with stale errno", de);
        same("Direction(Vector) with stale errno", dv);
      }
      same("Direction(array)", Direction<T>(std::array<T, 3>{s[0], s[1], s[2]}));
      same("Direction(Vector)", Direction<T>(Vector<T>(s[0], s[1], s[2])));
      same("Vector.Direction()", Vector<T>(s[0], s[1], s[2]).Direction());
      {
        Direction<T> q;
        q.Set(s[0], s[1], s[2]);
        same("Set(x,y,z)", q);
        Direction<T> q2;
        q2.Set(std::array<T, 3>{s[0], s[1], s[2]});
        same("Set(array)", q2);
        Direction<T> q3;
        q3.Set(Vector<T>(s[0], s[1], s[2]));
        same("Set(Vector)", q3);
        // histories on one object: set again from its own stored value (the argument aliases the object), from its own
        // components, self-assignment, and set over a previous different direction
        Direction<T> q4(s[1], s[2], s[0]);
        q4.Set(s[0], s[1], s[2]);
        same("Set(x,y,z) over another direction", q4);
        // each further step is judged against the object's value before the step (its input)
        auto again = [&](const char* path, auto&& op) {
          T before[3], after[3];
          vf::comps(q4, before);
          op();
          vf::comps(q4, after);
          vf::stat("path_comparisons");
          c10::check_direction<T>(path, after, before, 3);
          for (int i = 0; i < 3; i++)
            if (std::fabs((double)(after[i] - before[i])) > 2 * (double)std::numeric_limits<T>::epsilon()) {
              vf::viol(std::string("direction|renormalising-a-direction-changes-it|") + path + "|" + vf::TName<T>::value,
                       "{\"direction_before\":[" + vf::jstr(vf::hex(before[0])) + "," + vf::jstr(vf::hex(before[1])) + "," + vf::jstr(vf::hex(before[2])) + "],\"after\":[" +
                           vf::jstr(vf::hex(after[0])) + "," + vf::jstr(vf::hex(after[1])) + "," + vf::jstr(vf::hex(after[2])) + "]}");
              break;
            }
        };
        again("Set(own Value())", [&] { q4.Set(q4.Value()); });
        again("Set(own Value().x_y_z())", [&] { q4.Set(q4.Value().x_y_z()); });
        again("Set(own x, y, z)", [&] { q4.Set(q4.x(), q4.y(), q4.z()); });
        again("self-assignment", [&] { q4 = *&q4; });
        again("copy of itself assigned", [&] { q4 = Direction<T>(q4); });
      }
    }
    // x3 and x0.7: unchanged to rounding (2 ulp of 1 per component)
    {
      T d0[3], d3[3], d7[3];
      vf::comps(Direction<T>(v[0], v[1], v[2]), d0);
      vf::comps(Direction<T>(v[0] * 3, v[1] * 3, v[2] * 3), d3);
      vf::comps(Direction<T>(v[0] * (T)0.7, v[1] * (T)0.7, v[2] * (T)0.7), d7);
      const T in7[3] = {v[0] * (T)0.7, v[1] * (T)0.7, v[2] * (T)0.7};
      c10::check_direction<T>("Direction(x,y,z) x0.7", d7, in7, 3);
      vf::stat("rescaling_checks");
      for (int i = 0; i < 3; i++)
        if (std::fabs((double)(d3[i] - d0[i])) > 2 * (double)std::numeric_limits<T>::epsilon() || std::fabs((double)(d7[i] - d0[i])) > 3 * (double)std::numeric_limits<T>::epsilon()) {
          vf::viol(std::string("direction|positive-rescaling-changes-direction|") + vf::TName<T>::value,
                   "{\"input\":[" + vf::jstr(vf::hex(v[0])) + "," + vf::jstr(vf::hex(v[1])) + "," + vf::jstr(vf::hex(v[2])) + "]}");
          break;
        }
    }
    // cross product of two directions is a direction (or exactly zero for parallel arguments)
    {
      const auto& w = in.v3[(idx * 7 + 11) % in.v3.size()];
      const Direction<T> a(v[0], v[1], v[2]), b(w[0], w[1], w[2]);
      const Direction<T> c = a.Cross(b);
      T cc[3], raw[3];
      vf::comps(c, cc);
      vf::comps(a.Value().Cross(b.Value()), raw);
      c10::check_direction<T>("Direction.Cross(Direction)", cc, raw, 3);
      // ... and with a second direction that is nearly parallel / antiparallel to the first (one component moved by 2^-k of the
      // largest): the cross product of the two stored unit vectors is a small but ordinary vector and must give a unit direction
      T big = 0;
      for (int i = 0; i < 3; i++) big = std::fmax(big, std::fabs(v[i]));
      const int p = std::numeric_limits<T>::digits;
      for (int k : {6, p / 2 - 2, p / 2 + 3, p - 6, p - 2})
        for (int j = 0; j < 3; j++)
          for (int sg : {1, -1}) {
            T w2[3] = {v[0], v[1], v[2]};
            w2[j] += std::ldexp(big, -k);
            const Direction<T> b2(sg * w2[0], sg * w2[1], sg * w2[2]);
            T r2[3], c2[3];
            vf::comps(a.Value().Cross(b2.Value()), r2);
            const T rmax = std::fmax(std::fabs(r2[0]), std::fmax(std::fabs(r2[1]), std::fabs(r2[2])));
            if (rmax != 0 && rmax * rmax < std::numeric_limits<T>::min() * 16) continue;  // squared length would underflow: outside the statement
            vf::comps(a.Cross(b2), c2);
            c10::check_direction<T>("Direction.Cross(nearly parallel Direction)", c2, r2, 3);
            vf::stat("path_comparisons");
          }
    }
    // 3-D -> 2-D with a non-zero third component (also directions that are nearly along z): the planar direction is the unit
    // vector along the stored (x, y) of the direction
    if (v[0] != 0 || v[1] != 0) {
      const Direction<T> a3(v[0], v[1], v[2]);
      const T xy[2] = {a3.x(), a3.y()};
      const T m2 = std::fmax(std::fabs(xy[0]), std::fabs(xy[1]));
      if (m2 != 0 && m2 * m2 > std::numeric_limits<T>::min() * 16) {
        T pc[2];
        vf::comps(PlanarDirection<T>(a3), pc);
        c10::check_direction<T>("PlanarDirection(Direction with z != 0)", pc, xy, 2);
        vf::stat("path_comparisons");
      }
    }
    // 3-D -> 2-D -> 3-D
    if (v[0] != 0 || v[1] != 0) {
      const Direction<T> a(v[0], v[1], (T)0);
      const PlanarDirection<T> p(a);
      T pc[2], ac[3], back[3];
      vf::comps(p, pc);
      vf::comps(a, ac);
      vf::comps(Direction<T>(p), back);
      const T in2[2] = {v[0], v[1]};
      c10::check_direction<T>("PlanarDirection(Direction)", pc, in2, 2);
      vf::stat("path_comparisons");
      // the embedding re-normalises: the planar components come back to rounding (2 ulp of 1, as for every other path; the
      // statement does not ask for identical bits), the third component is exactly zero
      const double e2 = 2 * (double)std::numeric_limits<T>::epsilon();
      if (std::fabs((double)(back[0] - pc[0])) > e2 || std::fabs((double)(back[1] - pc[1])) > e2 || back[2] != 0)
        vf::viol(std::string("direction|Direction(PlanarDirection)-not-an-embedding|") + vf::TName<T>::value, "{\"input\":[" + vf::jstr(vf::hex(v[0])) + "," + vf::jstr(vf::hex(v[1])) + "]}");
    }
  }
  // ---- two dimensions
  for (const auto& v : in.v2) {
    if ((idx++ % nparts) != part) continue;
    T base[2];
    bool have = false;
    T mn = (v[0] != 0 && (v[1] == 0 || std::fabs(v[0]) < std::fabs(v[1]))) ? std::fabs(v[0]) : std::fabs(v[1]);
    int emn;
    std::frexp(mn, &emn);
    for (int e : in.binades) {
      if (2 * (e + emn - 1) < std::numeric_limits<T>::min_exponent + 2 && e != 0) continue;
      T s[2] = {std::ldexp(v[0], e), std::ldexp(v[1], e)};
      T d[2];
      vf::comps(PlanarDirection<T>(s[0], s[1]), d);
      c10::check_direction<T>("PlanarDirection(x,y)", d, s, 2);
      if (!have) {
        base[0] = d[0];
        base[1] = d[1];
        have = true;
      } else {
        vf::stat("rescaling_checks");
        if (!vf::same_bits(d[0], base[0]) || !vf::same_bits(d[1], base[1]))
          vf::viol(std::string("direction|planar-power-of-two-rescaling-changes-direction|") + vf::TName<T>::value,
                   "{\"input\":[" + vf::jstr(vf::hex(v[0])) + "," + vf::jstr(vf::hex(v[1])) + "],\"binade\":" + std::to_string(e) + "}");
      }
      auto same = [&](const char* path, const PlanarDirection<T>& o) {
        T c[2];
        vf::comps(o, c);
        vf::stat("path_comparisons");
        c10::check_direction<T>(path, c, s, 2);
        if (std::fabs((double)(c[0] - d[0])) > 2 * (double)std::numeric_limits<T>::epsilon() || std::fabs((double)(c[1] - d[1])) > 2 * (double)std::numeric_limits<T>::epsilon())
          vf::viol(std::string("direction|path-disagrees|") + path + "|" + vf::TName<T>::value, "{\"input\":[" + vf::jstr(vf::hex(s[0])) + "," + vf::jstr(vf::hex(s[1])) + "]}");
      };
      for (int stale : {ERANGE, EDOM}) {
        errno = stale;
        const PlanarDirection<T> de(s[0], s[1]);
        errno = stale;
        const PlanarDirection<T> dv(PlanarVector<T>(s[0], s[1]));
        errno = 0;
        same("PlanarDirection(x,y) with stale errno", de);
        same("PlanarDirection(PlanarVector) with stale errno", dv);
      }
      same("PlanarDirection(array)", PlanarDirection<T>(std::array<T, 2>{s[0], s[1]}));
      same("PlanarDirection(PlanarVector)", PlanarDirection<T>(PlanarVector<T>(s[0], s[1])));
      same("PlanarVector.PlanarDirection()", PlanarVector<T>(s[0], s[1]).PlanarDirection());
      {
        PlanarDirection<T> q;
        q.Set(s[0], s[1]);
        same("PlanarDirection.Set(x,y)", q);
        PlanarDirection<T> q2;
        q2.Set(std::array<T, 2>{s[0], s[1]});
        same("PlanarDirection.Set(array)", q2);
        PlanarDirection<T> q3;
        q3.Set(PlanarVector<T>(s[0], s[1]));
        same("PlanarDirection.Set(PlanarVector)", q3);
        PlanarDirection<T> q4(s[1], -s[0]);
        q4.Set(s[0], s[1]);
        same("PlanarDirection.Set(x,y) over another direction", q4);
        auto again = [&](const char* path, auto&& op) {
          T before[2], after[2];
          vf::comps(q4, before);
          op();
          vf::comps(q4, after);
          vf::stat("path_comparisons");
          c10::check_direction<T>(path, after, before, 2);
          for (int i = 0; i < 2; i++)
            if (std::fabs((double)(after[i] - before[i])) > 2 * (double)std::numeric_limits<T>::epsilon()) {
              vf::viol(std::string("direction|renormalising-a-direction-changes-it|") + path + "|" + vf::TName<T>::value,
                       "{\"direction_before\":[" + vf::jstr(vf::hex(before[0])) + "," + vf::jstr(vf::hex(before[1])) + "],\"after\":[" + vf::jstr(vf::hex(after[0])) + "," +
                           vf::jstr(vf::hex(after[1])) + "]}");
              break;
            }
        };
        again("PlanarDirection.Set(own Value())", [&] { q4.Set(q4.Value()); });
        again("PlanarDirection.Set(own Value().x_y())", [&] { q4.Set(q4.Value().x_y()); });
        again("PlanarDirection.Set(own x, y)", [&] { q4.Set(q4.x(), q4.y()); });
        again("PlanarDirection self-assignment", [&] { q4 = *&q4; });
        again("PlanarDirection copy of itself assigned", [&] { q4 = PlanarDirection<T>(q4); });
      }
    }
  }
  // ---- planar cross products: a unit vector along +-z, or exactly the zero direction for parallel / antiparallel / zero operands
  {
    long k = 0;
    for (const auto& v : in.v2) {
      if ((k++ % nparts) != part) continue;
      const auto& w = in.v2[(k * 5 + 3) % in.v2.size()];
      const PlanarDirection<T> a(v[0], v[1]);
      for (int variant = 0; variant < 5; variant++) {
        PlanarDirection<T> b;
        if (variant == 0) b = PlanarDirection<T>(w[0], w[1]);
        if (variant == 1) b = a;
        if (variant == 2) b = PlanarDirection<T>(-v[0], -v[1]);
        if (variant == 3) b = PlanarDirection<T>(v[0] * 3, v[1] * 3);
        if (variant == 4) b = PlanarDirection<T>((T)0, -(T)0);
        const Direction<T> c = a.Cross(b);
        T cc[3], raw[3];
        vf::comps(c, cc);
        vf::comps(a.Value().Cross(b.Value()), raw);
        c10::check_direction<T>("PlanarDirection.Cross(PlanarDirection)", cc, raw, 3);
        vf::stat("path_comparisons");
      }
    }
  }
  // ---- numeric-type conversion of directions (construction and assignment): still a unit vector in the new type, same sense
  {
    long k = 0;
    auto conv = [&](auto tag) {
      using T2 = decltype(tag);
      if constexpr (!std::is_same_v<T, T2>) {
        long kk = 0;
        for (const auto& v : in.v3) {
          if ((kk++ % (nparts * 7)) != part) continue;
          const Direction<T2> src((T2)v[0], (T2)v[1], (T2)v[2]);
          const Direction<T> byctor(src);
          Direction<T> byassign((T)0, (T)0, (T)1);
          byassign = src;
          T c1[3], c2[3];
          T sv[3] = {(T)src.x(), (T)src.y(), (T)src.z()};
          vf::comps(byctor, c1);
          vf::comps(byassign, c2);
          c10::check_direction<T>("Direction<T>(Direction<other T>)", c1, sv, 3);
          c10::check_direction<T>("Direction<T> = Direction<other T>", c2, sv, 3);
        }
        kk = 0;
        for (const auto& v : in.v2) {
          if ((kk++ % (nparts * 3)) != part) continue;
          const PlanarDirection<T2> src((T2)v[0], (T2)v[1]);
          const PlanarDirection<T> byctor(src);
          PlanarDirection<T> byassign((T)0, (T)1);
          byassign = src;
          T c1[2], c2[2];
          T sv[2] = {(T)src.x(), (T)src.y()};
          vf::comps(byctor, c1);
          vf::comps(byassign, c2);
          c10::check_direction<T>("PlanarDirection<T>(PlanarDirection<other T>)", c1, sv, 2);
          c10::check_direction<T>("PlanarDirection<T> = PlanarDirection<other T>", c2, sv, 2);
        }
      }
    };
    conv(float{});
    conv(double{});
    conv((long double)0);
    (void)k;
  }
  // ---- zero vectors (both signs of zero) through every path
  if (part == 0) {
    for (T z : {(T)0, -(T)0}) {
      const T zz[3] = {z, (T)0, z};
      T d[3];
      vf::comps(Direction<T>(z, (T)0, z), d);
      c10::check_direction<T>("Direction(x,y,z)", d, zz, 3);
      vf::comps(Direction<T>(std::array<T, 3>{z, z, z}), d);
      c10::check_direction<T>("Direction(array)", d, zz, 3);
      vf::comps(Direction<T>(Vector<T>(z, z, z)), d);
      c10::check_direction<T>("Direction(Vector)", d, zz, 3);
      vf::comps(Vector<T>(z, z, z).Direction(), d);
      c10::check_direction<T>("Vector.Direction()", d, zz, 3);
      vf::comps(PlanarDirection<T>(z, z), d);
      c10::check_direction<T>("PlanarDirection(x,y)", d, zz, 2);
      vf::comps(PlanarDirection<T>(PlanarVector<T>(z, z)), d);
      c10::check_direction<T>("PlanarDirection(PlanarVector)", d, zz, 2);
      vf::comps(Direction<T>(), d);
      c10::check_direction<T>("Direction()", d, zz, 3);
      vf::comps(Direction<T>::Zero(), d);
      c10::check_direction<T>("Direction::Zero()", d, zz, 3);
      // parallel directions: the cross product is the zero vector -> exactly zero direction
      vf::comps(Direction<T>(1, 2, 3).Cross(Direction<T>(2, 4, 6)), d);
      T rawc[3];
      vf::comps(Direction<T>(1, 2, 3).Value().Cross(Direction<T>(2, 4, 6).Value()), rawc);
      c10::check_direction<T>("Direction.Cross(parallel)", d, rawc, 3);
    }
    if (std::is_same_v<T, double>) {
      T d[3];
      vf::comps(Direction<T>(3, -4, 12), d);
      vf::sample(std::string("{\"input\":[3,-4,12],\"direction\":[") + vf::jstr(vf::hex(d[0])) + "," + vf::jstr(vf::hex(d[1])) + "," + vf::jstr(vf::hex(d[2])) + "],\"binades_visited\":" + std::to_string(in.binades.size()) + "}");
    }
  }
}
int main(int argc, char** argv) {
  const std::string t = argc > 1 ? argv[1] : "double";
  const int part = argc > 2 ? std::atoi(argv[2]) : 0, nparts = argc > 3 ? std::atoi(argv[3]) : 1;
  if (t == "float") all<float>(part, nparts);
  if (t == "double") all<double>(part, nparts);
  if (t == "longdouble") all<long double>(part, nparts);
  return 0;
}
