// c10_q.cpp - every vector-valued quantity (2-D and 3-D): Magnitude() type/value, typed component
// accessors, Direction()/PlanarDirection(), magnitude * direction and Q(magnitude, direction)
// reconstruction, Direction(Q) construction path. 3 numeric types.
#include <PhQ/Direction.hpp>
#include <PhQ/PlanarDirection.hpp>

#include "c10_common.hpp"
using namespace PhQ;

template <class Q, class = void>
struct HasMagnitude : std::false_type {};
template <class Q>
struct HasMagnitude<Q, std::void_t<decltype(std::declval<const Q&>().Magnitude())>> : std::true_type {};
#define HAS_MEMBER(NAME, EXPR)                                                              \
  template <class Q, class = void>                                                          \
  struct NAME : std::false_type {};                                                         \
  template <class Q>                                                                        \
  struct NAME<Q, std::void_t<decltype(std::declval<const Q&>().EXPR)>> : std::true_type {};
HAS_MEMBER(HasDir, Direction())
HAS_MEMBER(HasPDir, PlanarDirection())
HAS_MEMBER(HasX, x())
HAS_MEMBER(HasY, y())
HAS_MEMBER(HasZ, z())

struct F {
  template <template <class> class Q>
  void operator()(const char* name) {
    one<Q<float>>(name);
    one<Q<double>>(name);
    one<Q<long double>>(name);
  }
  template <class Q>
  void one(const char* name) {
    using T = vf::num_t<Q>;
    constexpr int n = vf::ncomp<Q>;
    if constexpr ((n == 2 || n == 3) && !vf::is_direction<Q>) {
      const std::string tag = std::string(name) + "|" + vf::TName<T>::value;
      vf::setadd("vector_quantities", name);
      std::vector<std::array<T, 3>> vs;
      for (int x = -3; x <= 3; x++)
        for (int y = -3; y <= 3; y++)
          for (int z = (n == 3 ? -3 : 0); z <= (n == 3 ? 3 : 0); z++)
            if (x || y || z) vs.push_back({(T)x, (T)y, (T)z});
      const T gen[][3] = {{(T)0.375, (T)-2.625, (T)1.4375}, {(T)-1e-3, (T)7.25e2, (T)3.5}, {(T)1, std::ldexp((T)1, -20), (T)0}};
      for (auto& g : gen) vs.push_back({g[0], g[1], n == 3 ? g[2] : (T)0});
      const int hi = std::numeric_limits<T>::max_exponent / 2 - 12, lo = std::numeric_limits<T>::min_exponent / 2 + 14;  // squares of all components stay finite and normal
      for (const auto& v0 : vs)
        for (int e : {0, -7, 19, lo, hi}) {
          T v[3] = {std::ldexp(v0[0], e), std::ldexp(v0[1], e), std::ldexp(v0[2], e)};
          const Q q = vf::make<Q>(v);
          vf::f128 n2 = 0;
          for (int i = 0; i < n; i++) n2 += (vf::f128)v[i] * (vf::f128)v[i];
          const vf::f128 norm = sqrtq(n2);
          vf::stat("quantity_vectors");
          if constexpr (HasMagnitude<Q>::value) {
            const auto m = q.Magnitude();
            using MQ = std::decay_t<decltype(m)>;
            // scalar quantity type of the same dimensions
            if constexpr (std::is_floating_point_v<MQ>) {
              if (!(Q::Dimensions() == PhQ::Dimensionless)) vf::viol("magnitude-type|" + tag, "{\"what\":\"Magnitude() of a dimensional vector quantity is a bare number\"}");
              if (!(vf::ulps<T>(m, norm) <= 2.0)) vf::viol("magnitude-value|" + tag, "{\"vector\":" + vf::comps_hex(q) + ",\"magnitude\":" + vf::jstr(vf::hex((T)m)) + "}");
            } else {
              if (vf::ncomp<MQ> != 1 || !(MQ::Dimensions() == Q::Dimensions()))
                vf::viol("magnitude-type|" + tag, "{\"what\":\"Magnitude() does not have the scalar quantity type of the same dimensions\",\"dimensions\":" +
                                                       vf::jstr(MQ::Dimensions().Print()) + ",\"expected\":" + vf::jstr(Q::Dimensions().Print()) + "}");
              if (!(vf::ulps<T>(m.Value(), norm) <= 2.0)) vf::viol("magnitude-value|" + tag, "{\"vector\":" + vf::comps_hex(q) + ",\"magnitude\":" + vf::jstr(vf::hex(m.Value())) + "}");
            }
            // reconstruction: magnitude * direction and Q(magnitude, direction), 4 ulp of |q| per component
            auto recon = [&](const char* form, const auto& r) {
              // (for Displacement, Length * Direction is a Position: same shape and dimensions, compared by components)
              static_assert(vf::ncomp<std::decay_t<decltype(r)>> == n);
              T c[3];
              vf::comps(r, c);
              vf::stat("reconstructions");
              for (int i = 0; i < n; i++) {
                const double err = (double)(fabsq((vf::f128)c[i] - (vf::f128)v[i]) / vf::ulp_at<T>(norm));
                vf::maxf(std::string("max_reconstruction_ulps_") + vf::TName<T>::value, err);
                if (!(err <= 4.0)) {
                  vf::viol(std::string("reconstruction|") + form + "|" + tag, "{\"vector\":" + vf::comps_hex(q) + ",\"rebuilt\":" + vf::comps_hex(r) + ",\"component\":" + std::to_string(i) + "}");
                  return;
                }
              }
            };
            if constexpr (n == 3 && HasDir<Q>::value) {
              const auto d = q.Direction();
              T dc[3], raw[3];
              vf::comps(d, dc);
              c10::check_direction<T>(std::string(name) + ".Direction()", dc, v, 3);
              vf::comps(PhQ::Direction<T>(q.Value()), raw);
              for (int i = 0; i < 3; i++)
                if (std::fabs((double)(dc[i] - raw[i])) > 2 * (double)std::numeric_limits<T>::epsilon()) {
                  vf::viol("direction-of-quantity-differs-from-direction-of-value|" + tag, "{\"vector\":" + vf::comps_hex(q) + "}");
                  break;
                }
              if constexpr (std::is_constructible_v<PhQ::Direction<T>, vf::Exactly<Q>>) {
                T c2[3];
                vf::comps(PhQ::Direction<T>(q), c2);
                c10::check_direction<T>(std::string("Direction(") + name + ")", c2, v, 3);
              }
              if constexpr (!std::is_floating_point_v<MQ>) {
                recon("Magnitude()*Direction()", m * d);
                if constexpr (std::is_constructible_v<Q, MQ, PhQ::Direction<T>>) recon("Q(magnitude,direction)", Q(m, d));
              }
            }
            if constexpr (n == 2 && HasPDir<Q>::value) {
              const auto d = q.PlanarDirection();
              T dc[2];
              vf::comps(d, dc);
              c10::check_direction<T>(std::string(name) + ".PlanarDirection()", dc, v, 2);
              if constexpr (std::is_constructible_v<PhQ::PlanarDirection<T>, vf::Exactly<Q>>) {
                T c2[2];
                vf::comps(PhQ::PlanarDirection<T>(q), c2);
                c10::check_direction<T>(std::string("PlanarDirection(") + name + ")", c2, v, 2);
              }
              if constexpr (!std::is_floating_point_v<MQ>) {
                recon("Magnitude()*PlanarDirection()", m * d);
                if constexpr (std::is_constructible_v<Q, MQ, PhQ::PlanarDirection<T>>) recon("Q(magnitude,planar_direction)", Q(m, d));
              }
            }
          }
          // typed component accessors
          auto acc = [&](const char* which, const auto& c, int slot) {
            using CQ = std::decay_t<decltype(c)>;
            vf::stat("component_accessors");
            T val;
            if constexpr (std::is_floating_point_v<CQ>) {
              val = c;
              if (!(Q::Dimensions() == PhQ::Dimensionless)) vf::viol(std::string("component-type|") + which + "|" + tag, "{}");
            } else {
              val = c.Value();
              if (!(CQ::Dimensions() == Q::Dimensions())) vf::viol(std::string("component-type|") + which + "|" + tag, "{\"dimensions\":" + vf::jstr(CQ::Dimensions().Print()) + "}");
            }
            if (!vf::same_bits(val, v[slot])) vf::viol(std::string("component-value|") + which + "|" + tag, "{\"vector\":" + vf::comps_hex(q) + ",\"returned\":" + vf::jstr(vf::hex(val)) + "}");
          };
          if constexpr (HasX<Q>::value) acc("x()", q.x(), 0);
          if constexpr (HasY<Q>::value) acc("y()", q.y(), 1);
          if constexpr (n == 3) {
            if constexpr (HasZ<Q>::value) acc("z()", q.z(), 2);
          }
        }
      vf::stat("vector_quantity_instances");
    }
  }
};
int main() { vf::for_each_selq(F{}); }
