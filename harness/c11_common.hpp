// c11_common.hpp - oracle and pair families for the angle property (C11).
#pragma once
#include "probe.hpp"
#include "vf.hpp"

namespace c11 {
using vf::f128;

template <class T>
struct Tol;
template <>
struct Tol<float> {
  static constexpr double v = 1e-3;
};
template <>
struct Tol<double> {
  static constexpr double v = 1e-7;
};
template <>
struct Tol<long double> {
  static constexpr double v = 1e-9;
};

static bool thorough() {
  static const bool t = std::getenv("VERIF_TIER") && std::string(std::getenv("VERIF_TIER")) == "thorough";
  return t;
}

// stored components of any argument kind (vector, planar vector, direction, quantity), padded to 3
template <class A>
inline void xyz(const A& a, f128* o) {
  using X = vf::num_t<A>;
  X c[9];
  vf::comps(a, c);
  constexpr int n = vf::count_of<A>();
  o[0] = c[0];
  o[1] = c[1];
  o[2] = n >= 3 ? (f128)c[2] : (f128)0;
}
inline f128 ref_angle(const f128* a, const f128* b) {
  // scale each to avoid overflow in the reference itself
  f128 ma = fmaxq(fmaxq(fabsq(a[0]), fabsq(a[1])), fabsq(a[2])), mb = fmaxq(fmaxq(fabsq(b[0]), fabsq(b[1])), fabsq(b[2]));
  f128 x[3] = {a[0] / ma, a[1] / ma, a[2] / ma}, y[3] = {b[0] / mb, b[1] / mb, b[2] / mb};
  f128 cx = x[1] * y[2] - x[2] * y[1], cy = x[2] * y[0] - x[0] * y[2], cz = x[0] * y[1] - x[1] * y[0];
  f128 dot = x[0] * y[0] + x[1] * y[1] + x[2] * y[2];
  return atan2q(sqrtq(cx * cx + cy * cy + cz * cz), dot);
}

template <class A>
inline std::string desc(const A& a) {
  return vf::comps_hex(a);
}

// One evaluation: theta = f(a, b). `family` is 0 generic, 1 parallel, 2 antiparallel, 3 nearly parallel
template <class T, class A, class B, class F>
inline T eval_pair(const char* kernel, const A& a, const B& b, int family, F&& angle_of, long long& nontrivial) {
  const T th = angle_of(a, b);
  f128 pa[3], pb[3];
  xyz(a, pa);
  xyz(b, pb);
  const f128 ref = ref_angle(pa, pb);
  const double tol = Tol<T>::v;
  const T pi_up = std::nextafter((T)vf::pi_q(), (T)4);
  vf::stat("angles");
  if (family != 0) nontrivial++;
  const char* why = nullptr;
  if (std::isnan(th))
    why = "nan";
  else if (!(th >= 0 && th <= pi_up))
    why = "out-of-range";
  else if (!(fabsq((f128)th - ref) <= (f128)tol))
    why = "differs-from-atan2";
  if (!why) {
    double d = (double)fabsq((f128)th - ref);
    vf::maxf(std::string("max_abs_error_") + vf::TName<T>::value, d);
  }
  if (why) {
    static const char* fam[] = {"generic", "parallel", "antiparallel", "nearly-parallel"};
    vf::viol(std::string("angle|") + kernel + "|" + vf::TName<T>::value + "|" + fam[family] + "|" + why,
             std::string("{\"kernel\":") + vf::jstr(kernel) + ",\"numeric_type\":" + vf::jstr(vf::TName<T>::value) + ",\"a\":" + desc(a) +
                 ",\"b\":" + desc(b) + ",\"observed\":" + vf::jstr(vf::dec(th)) + ",\"atan2_reference\":" + vf::jstr(vf::hexq(ref)) +
                 ",\"tolerance\":" + vf::dec(tol) + ",\"why\":" + vf::jstr(why) + "}");
  }
  return th;
}

// integer grid vectors in dimension D (2 or 3), components in [-r, r], non-zero
template <int D>
inline std::vector<std::array<int, 3>> grid(int r) {
  std::vector<std::array<int, 3>> g;
  for (int x = -r; x <= r; x++)
    for (int y = -r; y <= r; y++)
      for (int z = (D == 3 ? -r : 0); z <= (D == 3 ? r : 0); z++)
        if (x || y || z) g.push_back({x, y, z});
  return g;
}

// Drives all pair families for argument builders MA, MB: (const T c[3]) -> A / B, and angle functor.
// sym: functor (b, a) -> T or nullptr-like (no reversed overload)
template <class T, int D, class MA, class MB, class F, class G>
inline void run_kernel(const char* kernel, MA&& mka, MB&& mkb, F&& angle_ab, G&& angle_ba, bool a_scales, bool b_scales) {
  long long nontrivial = 0;
  const bool th = thorough();
  std::vector<int> sc;
  const int big = std::is_same_v<T, float> ? 12 : 40;
  if (th)
    sc = {-big, -3, 0, 5, big};
  else
    sc = {-big, 0, big};
  auto scaled = [](const std::array<int, 3>& v, long double k, int e, T* o) {
    for (int i = 0; i < 3; i++) o[i] = (T)std::ldexp((long double)v[i] * k, e);
  };
  auto both = [&](const T* ca, const T* cb, int family) {
    auto a = mka(ca);
    auto b = mkb(cb);
    T t1 = eval_pair<T>(kernel, a, b, family, angle_ab, nontrivial);
    T t2 = angle_ba(b, a);
    vf::stat("symmetry_checks");
    // symmetric in its arguments: up to the conditioning tolerance of the statement (the two argument orders may legitimately be
    // two different kernels whose cosines differ by a rounding)
    if (!(std::fabs((double)(t1 - t2)) <= Tol<T>::v) && !(std::isnan(t1) || std::isnan(t2)))
      vf::viol(std::string("angle|") + kernel + "|" + vf::TName<T>::value + "|asymmetric",
               std::string("{\"a\":") + desc(a) + ",\"b\":" + desc(b) + ",\"ab\":" + vf::jstr(vf::hex(t1)) + ",\"ba\":" + vf::jstr(vf::hex(t2)) + "}");
    return t1;
  };
  // power-of-two rescaling of either argument leaves the angle bitwise unchanged; x3 within 2 tol
  auto invariance = [&](const std::array<int, 3>& va, long double ka, const std::array<int, 3>& vb, long double kb, int family) {
    T ca[3], cb[3];
    scaled(va, ka, 0, ca);
    scaled(vb, kb, 0, cb);
    const T base = both(ca, cb, family);
    // the extreme binades of the non-overflowing range (|a|^2 and a.b stay finite and normal) are
    // reached only from O(1) multipliers
    std::vector<int> sa_list = sc, sb_list = sc;
    const int huge = std::numeric_limits<T>::max_exponent / 2 - 6;  // (12 * 2^huge)^2 * 3 stays finite
    if (std::fabs((double)ka) <= 3 && std::fabs((double)ka) >= 0.5 && std::fabs((double)kb) <= 3 && std::fabs((double)kb) >= 0.5) {
      sa_list.push_back(huge);
      sa_list.push_back(-huge);
      sb_list.push_back(huge);
      sb_list.push_back(-huge);
    }
    for (int ea : sa_list)
      for (int eb : sb_list) {
        if (ea == 0 && eb == 0) continue;
        if ((!a_scales && ea) || (!b_scales && eb)) continue;
        T sa[3], sb[3];
        scaled(va, ka, ea, sa);
        scaled(vb, kb, eb, sb);
        const T t = both(sa, sb, family);
        vf::stat("rescaling_checks");
        if (!vf::same_bits(t, base) && !std::isnan(t) && !std::isnan(base))
          vf::viol(std::string("angle|") + kernel + "|" + vf::TName<T>::value + "|length-dependent",
                   std::string("{\"a\":[") + std::to_string(va[0]) + "," + std::to_string(va[1]) + "," + std::to_string(va[2]) + "],\"ka\":" +
                       std::to_string((double)ka) + ",\"b\":[" + std::to_string(vb[0]) + "," + std::to_string(vb[1]) + "," + std::to_string(vb[2]) +
                       "],\"kb\":" + std::to_string((double)kb) + ",\"scale_a\":" + std::to_string(ea) + ",\"scale_b\":" + std::to_string(eb) +
                       ",\"base\":" + vf::jstr(vf::hex(base)) + ",\"scaled\":" + vf::jstr(vf::hex(t)) + "}");
      }
    if (a_scales) {
      T sa[3];
      scaled(va, ka * 3, 0, sa);
      const T t = both(sa, cb, family);
      if (std::fabs((double)(t - base)) > 2 * Tol<T>::v)
        vf::viol(std::string("angle|") + kernel + "|" + vf::TName<T>::value + "|length-dependent-x3", "{}");
    }
  };
  // (i) parallel / antiparallel
  const auto G4 = grid<D>(4);
  const long double ks[] = {1, 2, 3, 0.5L, 1048576.0L, 1.0L / 1048576.0L};
  for (auto& v : G4)
    for (long double k : ks) {
      invariance(v, 1, v, k, 1);
      invariance(v, 1, v, -k, 2);
    }
  // (ii) nearly parallel: a + eps * e_j, eps = 2^-k |a|_inf
  const auto G1 = grid<D>(1);
  const int p = std::numeric_limits<T>::digits;
  for (auto& v : G1)
    for (int k = 1; k <= p + 2; k += (th ? 1 : 3))
      for (int j = 0; j < D; j++)
        for (int sgn : {1, -1}) {
          T ca[3], cb[3];
          scaled(v, 1, 0, ca);
          scaled(v, 1, 0, cb);
          cb[j] += (T)std::ldexp((long double)sgn, -k);
          both(ca, cb, 3);
          T cc[3] = {-cb[0], -cb[1], -cb[2]};
          both(ca, cc, 3);
        }
  // (iii) generic region: all pairs of the {-2..2} grid
  const auto G2 = grid<D>(2);
  for (auto& va : G2)
    for (auto& vb : G2) {
      T ca[3], cb[3];
      scaled(va, 1, 0, ca);
      scaled(vb, 1, 0, cb);
      both(ca, cb, 0);
    }
  if (th)
    for (size_t i = 0; i < G2.size(); i += 5)
      for (size_t j = 0; j < G2.size(); j += 3) invariance(G2[i], 1.1L, G2[j], 0.7L, 0);
  // (iv) components of very different size inside one vector (still |a|^2 finite): a = (1.25*2^r, -+1.5, 1.75*2^-r) in every
  // rotation of the axes, against the unit grid, itself, its opposite and a vector that is large where a is small
  {
    const int huge = std::numeric_limits<T>::max_exponent / 2 - 6;
    for (int r : {p + 3, huge / 2, huge})
      for (int rot = 0; rot < D; rot++)
        for (int sg : {1, -1}) {
          T ca[3] = {0, 0, 0}, cm[3] = {0, 0, 0}, cw[3] = {0, 0, 0};
          const T big = (T)std::ldexp(1.25L, r), mid = (T)(sg * -1.5L), small = (T)std::ldexp(1.75L, -r);
          ca[rot % D] = big;
          ca[(rot + 1) % D] = mid;
          if (D == 3) ca[(rot + 2) % D] = small;
          for (int i = 0; i < 3; i++) cm[i] = -ca[i];
          cw[rot % D] = D == 3 ? small : mid;
          cw[(rot + 1) % D] = D == 3 ? mid : big;
          if (D == 3) cw[(rot + 2) % D] = big;
          both(ca, ca, 1);
          both(ca, cm, 2);
          both(ca, cw, 0);
          both(cw, ca, 0);
          for (auto& vb : G1) {
            T cb[3];
            scaled(vb, 1, 0, cb);
            both(ca, cb, 0);
            both(cb, ca, 0);
          }
        }
  }
  // (v) vectors whose length is next to one, 1 +- 2^-j for every third j up to the mantissa width (where "already a unit vector"
  // shortcuts would sit), against a vector a few milliradians away and against a generic one
  for (auto& vb : G1)
    for (int j = 2; j <= p + 1; j += (th ? 1 : 3))
      for (int sg : {1, -1}) {
        long double n2 = 0;
        for (int i = 0; i < D; i++) n2 += (long double)vb[i] * vb[i];
        const long double inv = 1.0L / std::sqrt(n2), f = 1.0L + sg * std::ldexp(1.0L, -j);
        T ca[3] = {0, 0, 0}, cb[3] = {0, 0, 0}, cg[3] = {(T)0.7L, (T)-1.3L, D == 3 ? (T)0.4L : (T)0};
        for (int i = 0; i < D; i++) {
          ca[i] = (T)(vb[i] * inv * f);
          cb[i] = (T)(vb[i] * inv + 0.003L * ((i + 1) % D == 0 ? 1.0L : -0.5L));
        }
        both(ca, cb, 3);
        both(cb, ca, 3);
        both(ca, cg, 0);
        both(cg, ca, 0);
      }
  vf::stat("nontrivial_angles", nontrivial);
  vf::stat("kernel_instances");
}
}  // namespace c11
