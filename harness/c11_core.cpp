// c11_core.cpp - the 8 angle kernels (constructor form) and the a.Angle(b) member forms on plain
// vectors / planar vectors / directions / planar directions, 3 numeric types.
#include <PhQ/Angle.hpp>
#include <PhQ/Direction.hpp>
#include <PhQ/PlanarDirection.hpp>

#include "c11_common.hpp"

template <class T>
void all() {
  using V = PhQ::Vector<T>;
  using D = PhQ::Direction<T>;
  using PV = PhQ::PlanarVector<T>;
  using PD = PhQ::PlanarDirection<T>;
  auto mv = [](const T* c) { return V(c[0], c[1], c[2]); };
  auto md = [](const T* c) { return D(c[0], c[1], c[2]); };
  auto mpv = [](const T* c) { return PV(c[0], c[1]); };
  auto mpd = [](const T* c) { return PD(c[0], c[1]); };
  auto ctor = [](const auto& a, const auto& b) { return PhQ::Angle<T>(a, b).Value(); };
  auto memb = [](const auto& a, const auto& b) { return a.Angle(b).Value(); };
  c11::run_kernel<T, 3>("Angle(Vector,Vector)", mv, mv, ctor, ctor, true, true);
  c11::run_kernel<T, 3>("Angle(Vector,Direction)", mv, md, ctor, ctor, true, false);
  c11::run_kernel<T, 3>("Angle(Direction,Vector)", md, mv, ctor, ctor, false, true);
  c11::run_kernel<T, 3>("Angle(Direction,Direction)", md, md, ctor, ctor, false, false);
  c11::run_kernel<T, 2>("Angle(PlanarVector,PlanarVector)", mpv, mpv, ctor, ctor, true, true);
  c11::run_kernel<T, 2>("Angle(PlanarVector,PlanarDirection)", mpv, mpd, ctor, ctor, true, false);
  c11::run_kernel<T, 2>("Angle(PlanarDirection,PlanarVector)", mpd, mpv, ctor, ctor, false, true);
  c11::run_kernel<T, 2>("Angle(PlanarDirection,PlanarDirection)", mpd, mpd, ctor, ctor, false, false);
  c11::run_kernel<T, 3>("Vector.Angle(Vector)", mv, mv, memb, memb, true, true);
  c11::run_kernel<T, 3>("Vector.Angle(Direction)", mv, md, memb, memb, true, false);
  c11::run_kernel<T, 3>("Direction.Angle(Direction)", md, md, memb, memb, false, false);
  c11::run_kernel<T, 2>("PlanarVector.Angle(PlanarVector)", mpv, mpv, memb, memb, true, true);
  c11::run_kernel<T, 2>("PlanarVector.Angle(PlanarDirection)", mpv, mpd, memb, memb, true, false);
  c11::run_kernel<T, 2>("PlanarDirection.Angle(PlanarDirection)", mpd, mpd, memb, memb, false, false);
}
int main(int argc, char** argv) {
  const std::string t = argc > 1 ? argv[1] : "double";
  if (t == "float") all<float>();
  if (t == "double") all<double>();
  if (t == "longdouble") all<long double>();
  PhQ::Vector<double> a(-4, -4, -4), b(-8, -8, -8);
  if (t == "double")
    vf::sample(std::string("{\"kernel\":\"Angle(Vector,Vector)\",\"a\":[-4,-4,-4],\"b\":[-8,-8,-8],\"observed\":") +
               vf::jstr(vf::dec(PhQ::Angle<double>(a, b).Value())) + "}");
  return 0;
}
