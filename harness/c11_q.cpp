// c11_q.cpp - quantity-level angle constructors Angle(Q, Q) and members q.Angle(q) for the
// selected vector-valued quantity types (presence probed), 3 numeric types.
#include <PhQ/Angle.hpp>

#include "c11_common.hpp"

template <class Q, class = void>
struct HasAngleMember : std::false_type {};
template <class Q>
struct HasAngleMember<Q, std::void_t<decltype(std::declval<const Q&>().Angle(std::declval<const Q&>()))>> : std::true_type {};

struct F {
  template <template <class> class Q>
  void operator()(const char* name) {
    one<Q<float>>(name);
    one<Q<double>>(name);
    one<Q<long double>>(name);
  }
  template <class Q>
  void one(const char* name) {
    using T = vf::num_t<Q>;
    constexpr int n = vf::ncomp<Q>;
    if constexpr ((n == 2 || n == 3) && !vf::is_direction<Q>) {
      auto mk = [](const T* c) { return vf::make<Q>(c); };
      if constexpr (std::is_constructible_v<PhQ::Angle<T>, vf::Exactly<Q>, vf::Exactly<Q>>) {
        auto ctor = [](const Q& a, const Q& b) { return PhQ::Angle<T>(a, b).Value(); };
        std::string k = std::string("Angle(") + name + "," + name + ")";
        c11::run_kernel<T, n>(k.c_str(), mk, mk, ctor, ctor, true, true);
        vf::setadd("quantity_angle_ctors", name);
      }
      if constexpr (HasAngleMember<Q>::value) {
        auto memb = [](const Q& a, const Q& b) { return a.Angle(b).Value(); };
        std::string k = std::string(name) + ".Angle(" + name + ")";
        c11::run_kernel<T, n>(k.c_str(), mk, mk, memb, memb, true, true);
        vf::setadd("quantity_angle_members", name);
      }
    }
  }
};
int main() { vf::for_each_selq(F{}); }
