// c12.cpp - elastic isotropic solid: 20 constructors x 7 accessors x material grid, stress/strain
// maps in 9 (model precision x argument precision) combinations, direct and through the abstract
// interface. usage: c12 <float|double|longdouble>   (precision of the model)
#include <PhQ/ConstitutiveModel/ElasticIsotropicSolid.hpp>

#include <functional>

#include "probe.hpp"
#include "vf.hpp"

using namespace PhQ;
using vf::f128;
static bool thorough = false;
struct ML {
  f128 mu, la;
};

template <class T>
struct H {
  using M = ConstitutiveModel::ElasticIsotropicSolid<T>;
  struct Ctor {
    const char* name;
    std::function<ML(f128, f128)> ref;               // exact (mu, lambda) as a function of the pair
    std::function<std::pair<T, T>(const M&)> get;     // the pair as the model reports it
    std::function<M(T, T)> make;                      // the constructor under test
  };
  static std::vector<Ctor> ctors() {
    auto P = Unit::Pressure::Pascal;
    std::vector<Ctor> v;
    auto E = [](const M& m) { return m.YoungModulus().Value(); };
    auto MU = [](const M& m) { return m.ShearModulus().Value(); };
    auto KS = [](const M& m) { return m.IsentropicBulkModulus().Value(); };
    auto KT = [](const M& m) { return m.IsothermalBulkModulus().Value(); };
    auto LA = [](const M& m) { return m.LameFirstModulus().Value(); };
    auto PW = [](const M& m) { return m.PWaveModulus().Value(); };
    auto NU = [](const M& m) { return m.PoissonRatio().Value(); };
#define PAIR(x, y) [=](const M& m) { return std::make_pair((T)x(m), (T)y(m)); }
    v.push_back({"YoungModulus+PoissonRatio", [](f128 e, f128 n) { return ML{e / (2 * (1 + n)), e * n / ((1 + n) * (1 - 2 * n))}; }, PAIR(E, NU),
                 [=](T a, T b) { return M(YoungModulus<T>(a, P), PoissonRatio<T>(b)); }});
    v.push_back({"YoungModulus+ShearModulus", [](f128 e, f128 g) { return ML{g, g * (e - 2 * g) / (3 * g - e)}; }, PAIR(E, MU),
                 [=](T a, T b) { return M(YoungModulus<T>(a, P), ShearModulus<T>(b, P)); }});
    v.push_back({"YoungModulus+IsentropicBulkModulus", [](f128 e, f128 k) { return ML{3 * k * e / (9 * k - e), 3 * k * (3 * k - e) / (9 * k - e)}; }, PAIR(E, KS),
                 [=](T a, T b) { return M(YoungModulus<T>(a, P), IsentropicBulkModulus<T>(b, P)); }});
    v.push_back({"YoungModulus+IsothermalBulkModulus", [](f128 e, f128 k) { return ML{3 * k * e / (9 * k - e), 3 * k * (3 * k - e) / (9 * k - e)}; }, PAIR(E, KT),
                 [=](T a, T b) { return M(YoungModulus<T>(a, P), IsothermalBulkModulus<T>(b, P)); }});
    v.push_back({"YoungModulus+LameFirstModulus",
                 [](f128 e, f128 l) {
                   f128 r = sqrtq(e * e + 9 * l * l + 2 * e * l);
                   return ML{(e - 3 * l + r) / 4, l};
                 },
                 PAIR(E, LA), [=](T a, T b) { return M(YoungModulus<T>(a, P), LameFirstModulus<T>(b, P)); }});
    v.push_back({"YoungModulus+PWaveModulus",
                 [](f128 e, f128 m) {
                   f128 d = e * e + 9 * m * m - 10 * e * m;
                   if (d < 0) d = 0;  // admissible materials have d >= 0; rounding of the pair may leave it at -0
                   f128 s = sqrtq(d);
                   return ML{(3 * m + e - s) / 8, (m - e + s) / 4};
                 },
                 PAIR(E, PW), [=](T a, T b) { return M(YoungModulus<T>(a, P), PWaveModulus<T>(b, P)); }});
    v.push_back({"ShearModulus+PoissonRatio", [](f128 g, f128 n) { return ML{g, 2 * g * n / (1 - 2 * n)}; }, PAIR(MU, NU),
                 [=](T a, T b) { return M(ShearModulus<T>(a, P), PoissonRatio<T>(b)); }});
    v.push_back({"ShearModulus+IsentropicBulkModulus", [](f128 g, f128 k) { return ML{g, k - 2 * g / 3}; }, PAIR(MU, KS),
                 [=](T a, T b) { return M(ShearModulus<T>(a, P), IsentropicBulkModulus<T>(b, P)); }});
    v.push_back({"ShearModulus+IsothermalBulkModulus", [](f128 g, f128 k) { return ML{g, k - 2 * g / 3}; }, PAIR(MU, KT),
                 [=](T a, T b) { return M(ShearModulus<T>(a, P), IsothermalBulkModulus<T>(b, P)); }});
    v.push_back({"ShearModulus+LameFirstModulus", [](f128 g, f128 l) { return ML{g, l}; }, PAIR(MU, LA),
                 [=](T a, T b) { return M(ShearModulus<T>(a, P), LameFirstModulus<T>(b, P)); }});
    v.push_back({"ShearModulus+PWaveModulus", [](f128 g, f128 m) { return ML{g, m - 2 * g}; }, PAIR(MU, PW),
                 [=](T a, T b) { return M(ShearModulus<T>(a, P), PWaveModulus<T>(b, P)); }});
    v.push_back({"IsentropicBulkModulus+LameFirstModulus", [](f128 k, f128 l) { return ML{(f128)1.5 * (k - l), l}; }, PAIR(KS, LA),
                 [=](T a, T b) { return M(IsentropicBulkModulus<T>(a, P), LameFirstModulus<T>(b, P)); }});
    v.push_back({"IsothermalBulkModulus+LameFirstModulus", [](f128 k, f128 l) { return ML{(f128)1.5 * (k - l), l}; }, PAIR(KT, LA),
                 [=](T a, T b) { return M(IsothermalBulkModulus<T>(a, P), LameFirstModulus<T>(b, P)); }});
    v.push_back({"IsentropicBulkModulus+PWaveModulus", [](f128 k, f128 m) { return ML{(f128)0.75 * (m - k), (f128)1.5 * k - (f128)0.5 * m}; }, PAIR(KS, PW),
                 [=](T a, T b) { return M(IsentropicBulkModulus<T>(a, P), PWaveModulus<T>(b, P)); }});
    v.push_back({"IsothermalBulkModulus+PWaveModulus", [](f128 k, f128 m) { return ML{(f128)0.75 * (m - k), (f128)1.5 * k - (f128)0.5 * m}; }, PAIR(KT, PW),
                 [=](T a, T b) { return M(IsothermalBulkModulus<T>(a, P), PWaveModulus<T>(b, P)); }});
    v.push_back({"IsentropicBulkModulus+PoissonRatio", [](f128 k, f128 n) { return ML{3 * k * (1 - 2 * n) / (2 + 2 * n), 3 * k * n / (1 + n)}; }, PAIR(KS, NU),
                 [=](T a, T b) { return M(IsentropicBulkModulus<T>(a, P), PoissonRatio<T>(b)); }});
    v.push_back({"IsothermalBulkModulus+PoissonRatio", [](f128 k, f128 n) { return ML{3 * k * (1 - 2 * n) / (2 + 2 * n), 3 * k * n / (1 + n)}; }, PAIR(KT, NU),
                 [=](T a, T b) { return M(IsothermalBulkModulus<T>(a, P), PoissonRatio<T>(b)); }});
    v.push_back({"LameFirstModulus+PWaveModulus", [](f128 l, f128 m) { return ML{(f128)0.5 * (m - l), l}; }, PAIR(LA, PW),
                 [=](T a, T b) { return M(LameFirstModulus<T>(a, P), PWaveModulus<T>(b, P)); }});
    v.push_back({"LameFirstModulus+PoissonRatio", [](f128 l, f128 n) { return ML{l * (1 - 2 * n) / (2 * n), l}; }, PAIR(LA, NU),
                 [=](T a, T b) { return M(LameFirstModulus<T>(a, P), PoissonRatio<T>(b)); }});
    v.push_back({"PWaveModulus+PoissonRatio", [](f128 m, f128 n) { return ML{m * (1 - 2 * n) / (2 - 2 * n), m * n / (1 - n)}; }, PAIR(PW, NU),
                 [=](T a, T b) { return M(PWaveModulus<T>(a, P), PoissonRatio<T>(b)); }});
    return v;
  }
  struct Mat {
    T mu, la;
    double nu;
    int e;
  };
  static std::vector<Mat> materials() {
    std::vector<double> nus = {0, 0x1p-40, 0x1p-20, 0.01, 0.1, 0.25, 0.3, 0.4, 0.45, 0.49, 0.499, 0.49999, 0.5 - 0x1p-20,
                               // nearly incompressible (soft gels, K/mu ~ 1e7..1e12): still inside [0, 0.5) in the numeric type
                               0.5 - 0x1p-24, 0.5 - 0x1p-30, 0.5 - 0x1p-40};
    std::vector<int> es = {-30, -8, 0, 11, 37};
    if (sizeof(T) == 4) es = {-15, -8, 0, 11, 15};
    std::vector<double> ms = {1, 1.1, 1.7};
    if (thorough) {
      ms = {1, 1.1, 1.25, 1.375, 1.5, 1.7, 1.9, 1.999, 1.0625};
    }
    std::vector<Mat> out;
    for (double nu : nus)
      for (int e : es)
        for (double mm : ms) {
          const T nut = (T)nu;
          if (nu != 0 && nut == 0) continue;
          if (!(nut < (T)0.5)) continue;  // rounds to 0.5 in this type: not an admissible material
          const T mu = (T)std::ldexp(mm, e);
          const f128 laq = 2 * (f128)mu * (f128)nut / (1 - 2 * (f128)nut);
          out.push_back({mu, (T)laq, nu, e});
        }
    return out;
  }
  static std::string nukey(double nu) {
    char b[32];
    std::snprintf(b, sizeof b, "%.12g", nu);
    return b;
  }

  // (a) accessor identities and (b) all 20 constructors
  static void moduli() {
    const auto cs = ctors();
    const auto P = Unit::Pressure::Pascal;
    const Mat* previous = nullptr;
    for (const Mat& mt : materials()) {
      const M ref(ShearModulus<T>(mt.mu, P), LameFirstModulus<T>(mt.la, P));
      const f128 mu = mt.mu, la = mt.la;
      // --- what an accessor reported stays what it was when the same accessor is asked of ANOTHER solid afterwards (results
      // bound by reference, as a caller may: `const auto& e = steel.YoungModulus();`)
      if (previous) {
        const M other(ShearModulus<T>(previous->mu, P), LameFirstModulus<T>(previous->la, P));
        bool ok = true;
        auto held = [&](auto get) {
          const auto& first = get(other);
          const T before = first.Value();
          const auto& second = get(ref);
          (void)second;
          ok = ok && vf::same_bits(first.Value(), before);
        };
        held([](const M& m) -> decltype(auto) { return m.ShearModulus(); });
        held([](const M& m) -> decltype(auto) { return m.LameFirstModulus(); });
        held([](const M& m) -> decltype(auto) { return m.YoungModulus(); });
        held([](const M& m) -> decltype(auto) { return m.IsentropicBulkModulus(); });
        held([](const M& m) -> decltype(auto) { return m.IsothermalBulkModulus(); });
        held([](const M& m) -> decltype(auto) { return m.PWaveModulus(); });
        held([](const M& m) -> decltype(auto) { return m.PoissonRatio(); });
        vf::stat("accessor_results_held_across_solids", 7);
        if (!ok)
          vf::viol(std::string("accessor-result-changes-with-a-later-call|") + vf::TName<T>::value,
                   std::string("{\"first_solid_mu\":") + vf::jstr(vf::hex(previous->mu)) + ",\"second_solid_mu\":" + vf::jstr(vf::hex(mt.mu)) + "}");
      }
      previous = &mt;
      // --- accessors vs the identities of isotropic elasticity, evaluated exactly on the stored (mu, lambda)
      struct Acc {
        const char* name;
        T got;
        std::function<f128(f128, f128)> f;
      };
      const Acc accs[] = {
          {"ShearModulus", ref.ShearModulus().Value(), [](f128 m, f128) { return m; }},
          {"LameFirstModulus", ref.LameFirstModulus().Value(), [](f128, f128 l) { return l; }},
          {"YoungModulus", ref.YoungModulus().Value(), [](f128 m, f128 l) { return m * (3 * l + 2 * m) / (l + m); }},
          {"IsentropicBulkModulus", ref.IsentropicBulkModulus().Value(), [](f128 m, f128 l) { return l + 2 * m / 3; }},
          {"IsothermalBulkModulus", ref.IsothermalBulkModulus().Value(), [](f128 m, f128 l) { return l + 2 * m / 3; }},
          {"PWaveModulus", ref.PWaveModulus().Value(), [](f128 m, f128 l) { return l + 2 * m; }},
          {"PoissonRatio", ref.PoissonRatio().Value(), [](f128 m, f128 l) { return l / (2 * (l + m)); }},
      };
      for (const Acc& a : accs) {
        const f128 want = a.f(mu, la);
        vf::stat("accessor_checks");
        const double err = vf::ulps<T>(a.got, want, fmaxq(fabsq(want), (f128)0));
        // Poisson ratio at nu -> 0 is lambda/(2(lambda+mu)): well conditioned; 4 ulp of the result (absolute floor for 0)
        const bool ok = want == 0 ? a.got == 0 : err <= 4.0;
        vf::maxf(std::string("max_accessor_ulps_") + vf::TName<T>::value, want == 0 ? 0 : err);
        if (!ok)
          vf::viol(std::string("accessor|") + a.name + "|" + vf::TName<T>::value,
                   std::string("{\"accessor\":") + vf::jstr(a.name) + ",\"mu\":" + vf::jstr(vf::hex(mt.mu)) + ",\"lambda\":" + vf::jstr(vf::hex(mt.la)) + ",\"observed\":" +
                       vf::jstr(vf::hex(a.got)) + ",\"identity_value\":" + vf::jstr(vf::hexq(want)) + ",\"ulps\":" + std::to_string(err) + "}");
      }
      // --- constructors
      for (const Ctor& c : cs) {
        const auto pr = c.get(ref);
        const M reb = c.make(pr.first, pr.second);
        const T mu2 = reb.ShearModulus().Value(), la2 = reb.LameFirstModulus().Value();
        vf::stat("constructor_checks");
        const std::string base = std::string("ctor=") + c.name;
        const ML g = c.ref(pr.first, pr.second);
        // The pair as reported (rounded to T) must itself denote an admissible material: next to nu = 1/2 in float, E rounds to
        // exactly 3 mu, which is the incompressible limit (lambda infinite) and no longer an input the statement covers. Decided
        // by the exact function of the pair, never by what the library returns. (0/0 - a pair that determines nothing - is NaN
        // here and is NOT skipped.)
        if (isinfq(g.mu) || isinfq(g.la) || g.mu <= 0 || g.la < 0) {
          vf::stat("skipped_rounded_pair_not_admissible");
          continue;
        }
        // ... and must not sit within 4 ulps of the incompressible pole (lambda -> +-infinity): there the exact function of the
        // pair changes without bound inside the ulp lattice the tolerance is taken over, so every answer is within tolerance
        if (g.la > 1024 * g.mu) {
          bool pole = false;
          for (int i = -4; i <= 4 && !pole; i++)
            for (int j = -4; j <= 4 && !pole; j++) {
              const ML h = c.ref(vf::step(pr.first, i), vf::step(pr.second, j));
              pole = isinfq(h.la) || isinfq(h.mu) || h.la < 0 || h.mu <= 0;
            }
          if (pole) {
            vf::stat("skipped_pair_within_4ulp_of_incompressible_pole");
            continue;
          }
        }
        if (std::isnan(mu2) || std::isnan(la2) || std::isinf(mu2) || std::isinf(la2)) {
          vf::viol(base + "|nu=" + nukey(mt.nu) + "|non-finite",
                   std::string("{\"constructor\":") + vf::jstr(c.name) + ",\"numeric_type\":" + vf::jstr(vf::TName<T>::value) + ",\"material_mu\":" + vf::jstr(vf::hex(mt.mu)) +
                       ",\"material_lambda\":" + vf::jstr(vf::hex(mt.la)) + ",\"poisson_ratio\":" + std::to_string(mt.nu) + ",\"pair\":[" + vf::jstr(vf::hex(pr.first)) + "," +
                       vf::jstr(vf::hex(pr.second)) + "],\"rebuilt_mu\":" + vf::jstr(vf::dec(mu2)) + ",\"rebuilt_lambda\":" + vf::jstr(vf::dec(la2)) + "}");
          continue;
        }
        // R3: accepted error = largest change of the exact result over the lattice of ulp offsets {-4..4}^2 of the pair,
        // floored at 4 ulp of the material's scale
        f128 smu = 0, sla = 0;
        for (int i = -4; i <= 4; i++)
          for (int j = -4; j <= 4; j++) {
            if (!i && !j) continue;
            const ML h = c.ref(vf::step(pr.first, i), vf::step(pr.second, j));
            if (isnanq(h.mu) || isnanq(h.la)) continue;
            smu = fmaxq(smu, fabsq(h.mu - g.mu));
            sla = fmaxq(sla, fabsq(h.la - g.la));
          }
        const f128 scale = fmaxq(fabsq(mu), fabsq(la));
        const f128 floor_ = 4 * vf::ulp_at<T>(scale);
        const f128 tolmu = fmaxq(smu, floor_), tolla = fmaxq(sla, floor_);
        const double rG = (double)fmaxq(fabsq((f128)mu2 - g.mu) / tolmu, fabsq((f128)la2 - g.la) / tolla);
        const double rO = (double)fmaxq(fabsq((f128)mu2 - mu) / tolmu, fabsq((f128)la2 - la) / tolla);
        vf::maxf(std::string("max_ctor_error_over_tolerance_vs_formula_") + vf::TName<T>::value, rG);
        vf::maxf(std::string("max_ctor_error_over_tolerance_vs_original_") + vf::TName<T>::value, rO);
        if (!(rG <= 1.0) || !(rO <= 1.0))
          vf::viol(base + "|" + vf::TName<T>::value + (rG > 1.0 ? "|wrong-function-of-pair" : "|does-not-reproduce-material"),
                   std::string("{\"constructor\":") + vf::jstr(c.name) + ",\"poisson_ratio\":" + std::to_string(mt.nu) + ",\"material_mu\":" + vf::jstr(vf::hex(mt.mu)) +
                       ",\"material_lambda\":" + vf::jstr(vf::hex(mt.la)) + ",\"pair\":[" + vf::jstr(vf::hex(pr.first)) + "," + vf::jstr(vf::hex(pr.second)) + "],\"rebuilt_mu\":" +
                       vf::jstr(vf::hex(mu2)) + ",\"rebuilt_lambda\":" + vf::jstr(vf::hex(la2)) + ",\"exact_mu\":" + vf::jstr(vf::hexq(g.mu)) + ",\"exact_lambda\":" +
                       vf::jstr(vf::hexq(g.la)) + ",\"error_over_tolerance_vs_formula\":" + std::to_string(rG) + ",\"vs_original\":" + std::to_string(rO) + "}");
      }
    }
  }

  // strain alphabet: basis, pairwise sums over {-2..2} entries, generic
  template <class TA>
  static std::vector<std::array<TA, 6>> tensors() {
    std::vector<std::array<TA, 6>> v;
    for (int i = 0; i < 6; i++)
      for (int s : {1, -2}) {
        std::array<TA, 6> a{};
        a[i] = (TA)s;
        v.push_back(a);
        for (int j = i + 1; j < 6; j++) {
          std::array<TA, 6> b = a;
          b[j] = (TA)(s == 1 ? 2 : -1);
          v.push_back(b);
        }
      }
    // the same tensors at small and large magnitudes (traces far below machine epsilon, far above 1)
    {
      const size_t n0 = v.size();
      for (int e : {-30, -70, 25})
        for (size_t k = 0; k < n0; k += 3) {
          std::array<TA, 6> a = v[k];
          for (auto& x : a) x = std::ldexp(x, e);
          v.push_back(a);
        }
    }
    unsigned long long s = 0x9E3779B97F4A7C15ULL;
    const int ng = thorough ? 64 : 12;
    for (int k = 0; k < ng; k++) {
      std::array<TA, 6> a;
      for (auto& x : a) {
        s = s * 6364136223846793005ULL + 1442695040888963407ULL;
        long double u = (long double)(s >> 11) / (long double)(1ULL << 53);
        x = (TA)((u * 2 - 1) * 1e-3L * (1 + k % 5));
      }
      v.push_back(a);
    }
    if (thorough)
      for (long k = 0; k < 15625; k += 7) {
        std::array<TA, 6> a;
        long r = k;
        for (auto& x : a) {
          x = (TA)((int)(r % 5) - 2);
          r /= 5;
        }
        v.push_back(a);
      }
    return v;
  }

  // (c), (d), (e) with argument precision TA
  template <class TA>
  static void maps() {
    const auto P = Unit::Pressure::Pascal;
    const auto ts = tensors<TA>();
    std::vector<Mat> mats;
    {
      const auto all = materials();
      for (size_t i = 0; i < all.size(); i += (thorough ? 1 : 4)) mats.push_back(all[i]);
      // call histories across model objects: every ordered pair (i, j) of a small set of solids - same shear modulus and
      // different Poisson ratios (0.25 gives lambda == mu exactly), the same ratio with another modulus, nu = 0 - is evaluated
      // back to back, so that anything a call leaves behind for the next call (a memo keyed on part of the material) is met
      std::vector<Mat> special;
      for (double nu : {0.2, 0.25, 0.3, 0.35, 0.0}) {
        const T mu = (T)1.5;
        special.push_back({mu, (T)(2 * (f128)mu * (f128)(T)nu / (1 - 2 * (f128)(T)nu)), nu, 0});
      }
      special.push_back({(T)3, (T)3, 0.25, 1});
      for (const Mat& a : special)
        for (const Mat& b : special) {
          mats.push_back(a);
          mats.push_back(b);
        }
    }
    for (const Mat& mt : mats) {
      const M model(ShearModulus<T>(mt.mu, P), LameFirstModulus<T>(mt.la, P));
      const ConstitutiveModel& base = model;
      const f128 mu = mt.mu, la = mt.la;
      for (const auto& e : ts) {
        const PhQ::Strain<TA> eps(SymmetricDyad<TA>(e[0], e[1], e[2], e[3], e[4], e[5]));
        const PhQ::Stress<TA> sig = model.Stress(eps);
        {
          // the value category of the argument does not matter: a temporary strain / stress gives what the named object gives
          TA n1[6], t1[6], n2[6], t2[6];
          vf::comps(sig, n1);
          vf::comps(model.Stress(PhQ::Strain<TA>(eps)), t1);
          vf::comps(model.Strain(sig), n2);
          vf::comps(model.Strain(PhQ::Stress<TA>(sig)), t2);
          for (int i = 0; i < 6; i++)
            if (!vf::same_bits(n1[i], t1[i]) || !vf::same_bits(n2[i], t2[i])) {
              vf::viol(std::string("temporary-argument-differs-from-named|") + vf::TName<T>::value + "|" + vf::TName<TA>::value, "{\"strain\":" + vf::comps_hex(eps) + ",\"stress_of_named\":" + vf::comps_hex(sig) +
                                                                                                                           ",\"stress_of_temporary\":" + vf::comps_hex(model.Stress(PhQ::Strain<TA>(eps))) + "}");
              break;
            }
        }
        TA got[6];
        vf::comps(sig, got);
        const f128 tr = (f128)e[0] + (f128)e[3] + (f128)e[5];
        const f128 atr = fabsq((f128)e[0]) + fabsq((f128)e[3]) + fabsq((f128)e[5]);
        f128 want[6];
        const std::string tag = std::string(vf::TName<T>::value) + "|" + vf::TName<TA>::value;
        bool bad = false;
        for (int i = 0; i < 6; i++) {
          const bool diag = i == 0 || i == 3 || i == 5;
          want[i] = 2 * mu * (f128)e[i] + (diag ? la * tr : 0);
          const f128 scale = fabsq(2 * mu * (f128)e[i]) + (diag ? fabsq(la) * atr : 0);
          const double err = scale == 0 ? (got[i] == 0 ? 0.0 : INFINITY) : vf::ulps<TA>(got[i], want[i], scale);
          vf::maxf(std::string("max_stress_ulps_model_") + tag, err);
          if (!(err <= 4.0) && !bad) {
            bad = true;
            vf::viol("stress|" + tag + "|component" + std::to_string(i),
                     std::string("{\"model_precision\":") + vf::jstr(vf::TName<T>::value) + ",\"argument_precision\":" + vf::jstr(vf::TName<TA>::value) + ",\"mu\":" +
                         vf::jstr(vf::hex(mt.mu)) + ",\"lambda\":" + vf::jstr(vf::hex(mt.la)) + ",\"strain\":" + vf::comps_hex(eps) + ",\"observed\":" + vf::jstr(vf::hex(got[i])) +
                         ",\"exact\":" + vf::jstr(vf::hexq(want[i])) + ",\"ulps\":" + (std::isfinite(err) ? std::to_string(err) : std::string("\"inf\"")) + "}");
          }
        }
        vf::stat("stress_evaluations");
        // strain-rate arguments do not matter; strain-rate alone gives zero stress; stress gives zero strain rate
        for (int k = 0; k < 4; k++) {
          const PhQ::StrainRate<TA> rate(SymmetricDyad<TA>((TA)(k * 3.5 - 2), (TA)k, (TA)-k, (TA)(1e6 * k), (TA)0.25, (TA)-7), Unit::Frequency::Hertz);
          TA g2[6];
          vf::comps(model.Stress(eps, rate), g2);
          for (int i = 0; i < 6; i++)
            if (!vf::same_bits(g2[i], got[i])) {
              vf::viol("strain-rate-argument-matters|" + tag, "{\"strain\":" + vf::comps_hex(eps) + ",\"strain_rate\":" + vf::comps_hex(rate) + "}");
              break;
            }
          TA z[6], zr[6];
          vf::comps(model.Stress(rate), z);
          vf::comps(model.StrainRate(sig), zr);
          for (int i = 0; i < 6; i++)
            if (!(z[i] == 0 && !std::signbit(z[i]) && zr[i] == 0 && !std::signbit(zr[i]))) {
              vf::viol("rate-stub-not-zero|" + tag, "{\"stress_of_strain_rate\":" + vf::comps_hex(model.Stress(rate)) + ",\"strain_rate_of_stress\":" + vf::comps_hex(model.StrainRate(sig)) + "}");
              break;
            }
          // through the abstract interface: identical
          TA v1[6], v2[6];
          vf::comps(base.Stress(eps, rate), v1);
          vf::comps(base.Stress(rate), v2);
          for (int i = 0; i < 6; i++)
            if (!vf::same_bits(v1[i], got[i]) || !vf::same_bits(v2[i], z[i])) {
              vf::viol("virtual-differs-from-direct|" + tag + "|Stress(strain,rate)", "{\"strain\":" + vf::comps_hex(eps) + "}");
              break;
            }
        }
        {
          TA v1[6], v2[6], d2[6];
          vf::comps(base.Stress(eps), v1);
          vf::comps(base.Strain(sig), v2);
          vf::comps(model.Strain(sig), d2);
          for (int i = 0; i < 6; i++)
            if (!vf::same_bits(v1[i], got[i]) || !vf::same_bits(v2[i], d2[i])) {
              vf::viol("virtual-differs-from-direct|" + tag + "|Stress/Strain", "{\"strain\":" + vf::comps_hex(eps) + "}");
              break;
            }
          vf::stat("virtual_comparisons");
        }
        // the strain function inverts the map: exact inverse of the OBSERVED stress, R3 on the stress components
        {
          TA back[6];
          vf::comps(model.Strain(sig), back);
          auto inv = [&](const f128* s, f128* o) {
            const f128 a = 1 / (2 * mu), b = -la / (2 * mu * (2 * mu + 3 * la));
            const f128 t = s[0] + s[3] + s[5];
            for (int i = 0; i < 6; i++) o[i] = a * s[i] + ((i == 0 || i == 3 || i == 5) ? b * t : 0);
          };
          f128 s0[6], r0[6];
          for (int i = 0; i < 6; i++) s0[i] = got[i];
          inv(s0, r0);
          f128 tol[6] = {0, 0, 0, 0, 0, 0};
          for (int c = 0; c < 6; c++) {
            f128 worst[6] = {0, 0, 0, 0, 0, 0};
            for (int d : {-4, -2, -1, 1, 2, 4}) {
              f128 s1[6], r1[6];
              for (int i = 0; i < 6; i++) s1[i] = s0[i];
              s1[c] = vf::step(got[c], d);
              inv(s1, r1);
              for (int i = 0; i < 6; i++) worst[i] = fmaxq(worst[i], fabsq(r1[i] - r0[i]));
            }
            for (int i = 0; i < 6; i++) tol[i] += worst[i];
          }
          f128 emax = 0;
          for (int i = 0; i < 6; i++) emax = fmaxq(emax, fabsq((f128)e[i]));
          vf::stat("inverse_evaluations");
          for (int i = 0; i < 6; i++) {
            const f128 t = fmaxq(tol[i], 4 * vf::ulp_at<TA>(emax));
            // (i) computes the inverse map of what it was given, (ii) returns the original strain
            const double r1 = (double)(fabsq((f128)back[i] - r0[i]) / t), r2 = (double)(fabsq((f128)back[i] - (f128)e[i]) / (2 * t));
            vf::maxf("max_inverse_error_over_tolerance_" + tag, std::max(r1, r2));
            if (!(r1 <= 1.0) || !(r2 <= 1.0)) {
              vf::viol("strain-does-not-invert-stress|" + tag + "|component" + std::to_string(i),
                       std::string("{\"mu\":") + vf::jstr(vf::hex(mt.mu)) + ",\"lambda\":" + vf::jstr(vf::hex(mt.la)) + ",\"strain\":" + vf::comps_hex(eps) + ",\"stress\":" +
                           vf::comps_hex(sig) + ",\"strain_back\":" + vf::comps_hex(model.Strain(sig)) + ",\"error_over_tolerance\":" + std::to_string(std::max(r1, r2)) + "}");
              break;
            }
          }
        }
      }
    }
  }
  static void run() {
    moduli();
    maps<float>();
    maps<double>();
    maps<long double>();
    if (std::is_same_v<T, double>) {
      const auto P = Unit::Pressure::Pascal;
      const M m(YoungModulus<T>(200e9, P), PoissonRatio<T>(0.3));
      vf::sample(std::string("{\"constructed_from\":\"YoungModulus 200e9 Pa + PoissonRatio 0.3\",\"shear_modulus\":") + vf::jstr(vf::dec(m.ShearModulus().Value())) +
                 ",\"lame_first_modulus\":" + vf::jstr(vf::dec(m.LameFirstModulus().Value())) + ",\"p_wave_modulus\":" + vf::jstr(vf::dec(m.PWaveModulus().Value())) + "}");
    }
  }
};

int main(int argc, char** argv) {
  thorough = std::getenv("VERIF_TIER") && std::string(std::getenv("VERIF_TIER")) == "thorough";
  const std::string t = argc > 1 ? argv[1] : "double";
  if (t == "float") H<float>::run();
  if (t == "double") H<double>::run();
  if (t == "longdouble") H<long double>::run();
  return 0;
}
