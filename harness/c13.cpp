// c13.cpp - Newtonian fluid models: stress = 2 mu D (+ mu_b tr(D) I), exact inverse, stubs, linearity,
// 9 precision combinations, direct and through the abstract interface.
// usage: c13 <float|double|longdouble>  (precision of the model)
#include <PhQ/ConstitutiveModel/CompressibleNewtonianFluid.hpp>
#include <PhQ/ConstitutiveModel/IncompressibleNewtonianFluid.hpp>

#include "probe.hpp"
#include "vf.hpp"
using namespace PhQ;
using vf::f128;
static bool thorough = false;

template <class TA>
static std::vector<std::array<TA, 6>> tensors() {
  std::vector<std::array<TA, 6>> v;
  for (int i = 0; i < 6; i++)
    for (int s : {1, -2}) {
      std::array<TA, 6> a{};
      a[i] = (TA)s;
      v.push_back(a);
      for (int j = i + 1; j < 6; j++) {
        std::array<TA, 6> b = a;
        b[j] = (TA)(s == 1 ? 2 : -1);
        v.push_back(b);
      }
    }
  // structured tensors: every diagonal tensor over {-2..3}^3 - isotropic ones (k*I), plane shears diag(0,s,-s), tensors whose
  // first entry equals the mean - alone, with one shear component, and at a non-representable scale
  for (int a = -2; a <= 3; a++)
    for (int b = -2; b <= 3; b++)
      for (int c = -2; c <= 3; c++) {
        if (!a && !b && !c) continue;
        v.push_back({(TA)a, 0, 0, (TA)b, 0, (TA)c});
        if ((a + 2 * b + 3 * c) % 4 == 0) v.push_back({(TA)a, 0, (TA)1, (TA)b, 0, (TA)c});
        if ((a + b + c) % 3 == 0) v.push_back({(TA)(a * 0.3L), 0, 0, (TA)(b * 0.3L), 0, (TA)(c * 0.3L)});
      }
  // the same tensors at small and large magnitudes (traces far below machine epsilon, far above 1)
  {
    const size_t n0 = v.size();
    for (int e : {-30, -70, 25})
      for (size_t k = 0; k < n0; k += 3) {
        std::array<TA, 6> a = v[k];
        for (auto& x : a) x = std::ldexp(x, e);
        v.push_back(a);
      }
  }
  unsigned long long s = 0xD1B54A32D192ED03ULL;
  const int ng = thorough ? 64 : 12;
  for (int k = 0; k < ng; k++) {
    std::array<TA, 6> a;
    for (auto& x : a) {
      s = s * 6364136223846793005ULL + 1442695040888963407ULL;
      long double u = (long double)(s >> 11) / (long double)(1ULL << 53);
      x = (TA)((u * 2 - 1) * 37.5L * (1 + k % 5));
    }
    v.push_back(a);
  }
  return v;
}
template <class TA>
static SymmetricDyad<TA> sd(const std::array<TA, 6>& e) {
  return SymmetricDyad<TA>(e[0], e[1], e[2], e[3], e[4], e[5]);
}

template <class Model, class T, class TA>
void maps(const char* mname, const Model& model, T mu_t, T mub_t) {
  const ConstitutiveModel& base = model;
  const f128 mu = mu_t, mub = mub_t;
  const std::string tag = std::string(mname) + "|" + vf::TName<T>::value + "|" + vf::TName<TA>::value;
  const auto ts = tensors<TA>();
  auto fwd = [&](const f128* d, f128* o, f128* sc) {
    const f128 tr = d[0] + d[3] + d[5], atr = fabsq(d[0]) + fabsq(d[3]) + fabsq(d[5]);
    for (int i = 0; i < 6; i++) {
      const bool dg = i == 0 || i == 3 || i == 5;
      o[i] = 2 * mu * d[i] + (dg ? mub * tr : 0);
      if (sc) sc[i] = fabsq(2 * mu * d[i]) + (dg ? fabsq(mub) * atr : 0);
    }
  };
  auto inv = [&](const f128* s, f128* o) {
    const f128 a = 1 / (2 * mu), b = -mub / (2 * mu * (2 * mu + 3 * mub)), t = s[0] + s[3] + s[5];
    for (int i = 0; i < 6; i++) o[i] = a * s[i] + ((i == 0 || i == 3 || i == 5) ? b * t : 0);
  };
  for (size_t k = 0; k < ts.size(); k++) {
    const auto& e = ts[k];
    const PhQ::StrainRate<TA> D(sd(e), Unit::Frequency::Hertz);
    const PhQ::Stress<TA> sig = model.Stress(D);
    TA got[6];
    vf::comps(sig, got);
    {
      // a temporary argument gives what the named object gives
      TA t1[6], n2[6], t2[6];
      vf::comps(model.Stress(PhQ::StrainRate<TA>(D)), t1);
      vf::comps(model.StrainRate(sig), n2);
      vf::comps(model.StrainRate(PhQ::Stress<TA>(sig)), t2);
      for (int i = 0; i < 6; i++)
        if (!vf::same_bits(got[i], t1[i]) || !vf::same_bits(n2[i], t2[i])) {
          vf::viol("temporary-argument-differs-from-named|" + tag, "{\"strain_rate\":" + vf::comps_hex(D) + "}");
          break;
        }
    }
    f128 d[6], want[6], sc[6];
    for (int i = 0; i < 6; i++) d[i] = e[i];
    fwd(d, want, sc);
    vf::stat("stress_evaluations");
    for (int i = 0; i < 6; i++) {
      const double err = sc[i] == 0 ? (got[i] == 0 ? 0.0 : INFINITY) : vf::ulps<TA>(got[i], want[i], sc[i]);
      vf::maxf("max_stress_ulps_" + tag, err);
      if (!(err <= 4.0)) {
        vf::viol("stress|" + tag + "|component" + std::to_string(i),
                 std::string("{\"model\":") + vf::jstr(mname) + ",\"mu\":" + vf::jstr(vf::hex(mu_t)) + ",\"mu_bulk\":" + vf::jstr(vf::hex(mub_t)) + ",\"strain_rate\":" + vf::comps_hex(D) +
                     ",\"observed\":" + vf::jstr(vf::hex(got[i])) + ",\"exact\":" + vf::jstr(vf::hexq(want[i])) + "}");
        break;
      }
    }
    // inverse map (R3 on the stress components)
    {
      TA back[6];
      vf::comps(model.StrainRate(sig), back);
      f128 s0[6], r0[6], tol[6] = {0, 0, 0, 0, 0, 0};
      for (int i = 0; i < 6; i++) s0[i] = got[i];
      inv(s0, r0);
      for (int c = 0; c < 6; c++) {
        f128 worst[6] = {0, 0, 0, 0, 0, 0};
        for (int dd : {-4, -2, -1, 1, 2, 4}) {
          f128 s1[6], r1[6];
          for (int i = 0; i < 6; i++) s1[i] = s0[i];
          s1[c] = vf::step(got[c], dd);
          inv(s1, r1);
          for (int i = 0; i < 6; i++) worst[i] = fmaxq(worst[i], fabsq(r1[i] - r0[i]));
        }
        for (int i = 0; i < 6; i++) tol[i] += worst[i];
      }
      f128 emax = 0;
      for (int i = 0; i < 6; i++) emax = fmaxq(emax, fabsq(d[i]));
      vf::stat("inverse_evaluations");
      for (int i = 0; i < 6; i++) {
        const f128 t = fmaxq(tol[i], 4 * vf::ulp_at<TA>(emax));
        const double r1 = (double)(fabsq((f128)back[i] - r0[i]) / t), r2 = (double)(fabsq((f128)back[i] - d[i]) / (2 * t));
        vf::maxf("max_inverse_error_over_tolerance_" + tag, std::max(r1, r2));
        if (!(r1 <= 1.0) || !(r2 <= 1.0)) {
          vf::viol("strain-rate-does-not-invert-stress|" + tag + "|component" + std::to_string(i),
                   std::string("{\"mu\":") + vf::jstr(vf::hex(mu_t)) + ",\"mu_bulk\":" + vf::jstr(vf::hex(mub_t)) + ",\"strain_rate\":" + vf::comps_hex(D) + ",\"stress\":" + vf::comps_hex(sig) +
                       ",\"strain_rate_back\":" + vf::comps_hex(model.StrainRate(sig)) + "}");
          break;
        }
      }
    }
    // strain arguments are ignored; stubs are exactly +0; abstract interface identical
    for (int q = 0; q < 3; q++) {
      const PhQ::Strain<TA> eps(SymmetricDyad<TA>((TA)(q * 0.5 - 1), (TA)q, (TA)-3, (TA)(1e5 * q), (TA)0.125, (TA)7));
      TA a1[6], z1[6], z2[6], v1[6], v2[6], v3[6], v4[6], v5[6];
      vf::comps(model.Stress(eps, D), a1);
      vf::comps(model.Stress(eps), z1);
      vf::comps(model.Strain(sig), z2);
      vf::comps(base.Stress(eps, D), v1);
      vf::comps(base.Stress(D), v2);
      vf::comps(base.Stress(eps), v3);
      vf::comps(base.Strain(sig), v4);
      vf::comps(base.StrainRate(sig), v5);
      TA sr[6];
      vf::comps(model.StrainRate(sig), sr);
      vf::stat("virtual_comparisons");
      for (int i = 0; i < 6; i++) {
        if (!vf::same_bits(a1[i], got[i])) {
          vf::viol("strain-argument-matters|" + tag, "{\"strain\":" + vf::comps_hex(eps) + ",\"strain_rate\":" + vf::comps_hex(D) + "}");
          break;
        }
        if (!(z1[i] == 0 && !std::signbit(z1[i]) && z2[i] == 0 && !std::signbit(z2[i]))) {
          vf::viol("strain-stub-not-zero|" + tag, "{\"stress_of_strain\":" + vf::comps_hex(model.Stress(eps)) + ",\"strain_of_stress\":" + vf::comps_hex(model.Strain(sig)) + "}");
          break;
        }
        if (!vf::same_bits(v1[i], got[i]) || !vf::same_bits(v2[i], got[i]) || !vf::same_bits(v3[i], z1[i]) || !vf::same_bits(v4[i], z2[i]) || !vf::same_bits(v5[i], sr[i])) {
          vf::viol("virtual-differs-from-direct|" + tag, "{\"strain_rate\":" + vf::comps_hex(D) + "}");
          break;
        }
      }
    }
    // linearity: homogeneity under +-1, 2, 1/2 is bitwise; additivity and factor 3 to 4 ulp of the sum of |terms|
    {
      for (TA c : {(TA)-1, (TA)2, (TA)0.5}) {
        std::array<TA, 6> e2;
        for (int i = 0; i < 6; i++) e2[i] = e[i] * c;
        TA g2[6];
        vf::comps(model.Stress(PhQ::StrainRate<TA>(sd(e2), Unit::Frequency::Hertz)), g2);
        vf::stat("linearity_checks");
        for (int i = 0; i < 6; i++)
          if (!(g2[i] == got[i] * c)) {
            vf::viol("stress-not-homogeneous|" + tag, "{\"factor\":" + vf::jstr(vf::dec(c)) + ",\"strain_rate\":" + vf::comps_hex(D) + "}");
            break;
          }
        TA i2[6], i1[6];
        std::array<TA, 6> s2;
        for (int i = 0; i < 6; i++) s2[i] = got[i] * c;
        vf::comps(model.StrainRate(PhQ::Stress<TA>(sd(s2), Unit::Pressure::Pascal)), i2);
        vf::comps(model.StrainRate(sig), i1);
        for (int i = 0; i < 6; i++)
          if (!(i2[i] == i1[i] * c)) {
            vf::viol("strain-rate-not-homogeneous|" + tag, "{\"factor\":" + vf::jstr(vf::dec(c)) + ",\"stress\":" + vf::comps_hex(sig) + "}");
            break;
          }
      }
      const auto& y = ts[(k * 7 + 3) % ts.size()];
      for (TA al : {(TA)1, (TA)3})
        for (TA be : {(TA)1, (TA)-1, (TA)3}) {
          std::array<TA, 6> z;
          f128 zq[6], wantz[6], scz[6];
          for (int i = 0; i < 6; i++) {
            z[i] = al * e[i] + be * y[i];
            zq[i] = z[i];
          }
          fwd(zq, wantz, scz);
          TA gz[6], gy[6];
          vf::comps(model.Stress(PhQ::StrainRate<TA>(sd(z), Unit::Frequency::Hertz)), gz);
          vf::comps(model.Stress(PhQ::StrainRate<TA>(sd(y), Unit::Frequency::Hertz)), gy);
          vf::stat("linearity_checks");
          for (int i = 0; i < 6; i++) {
            // alpha f(x) + beta f(y) against f(alpha x + beta y), both within 4 ulp of the terms' scale
            f128 dq[6], wy[6], scy[6];
            for (int j = 0; j < 6; j++) dq[j] = y[j];
            fwd(dq, wy, scy);
            const f128 scale = fabsq((f128)al) * sc[i] + fabsq((f128)be) * scy[i];
            const f128 comb = (f128)al * (f128)got[i] + (f128)be * (f128)gy[i];
            if (scale == 0) continue;
            if (!((double)(fabsq((f128)gz[i] - comb) / vf::ulp_at<TA>(scale)) <= 12.0)) {
              vf::viol("stress-not-additive|" + tag, "{\"alpha\":" + vf::jstr(vf::dec(al)) + ",\"beta\":" + vf::jstr(vf::dec(be)) + ",\"x\":" + vf::comps_hex(D) + "}");
              break;
            }
          }
        }
    }
  }
}

template <class T>
void run() {
  using CNF = ConstitutiveModel::CompressibleNewtonianFluid<T>;
  using INF = ConstitutiveModel::IncompressibleNewtonianFluid<T>;
  const auto V = Unit::DynamicViscosity::PascalSecond;
  std::vector<int> es = {-30, -8, 0, 11, 37};
  if (sizeof(T) == 4) es = {-15, -8, 0, 11, 15};
  std::vector<double> ms = thorough ? std::vector<double>{1, 1.1, 1.375, 1.7, 1.9} : std::vector<double>{1, 1.7};
  for (int e : es)
    for (double m : ms) {
      const T mu = (T)std::ldexp(m, e);
      const INF inc{DynamicViscosity<T>(mu, V)};
      maps<INF, T, float>("IncompressibleNewtonianFluid", inc, mu, (T)0);
      maps<INF, T, double>("IncompressibleNewtonianFluid", inc, mu, (T)0);
      maps<INF, T, long double>("IncompressibleNewtonianFluid", inc, mu, (T)0);
      // negative ratios: the coefficient of tr(D) I is a second viscosity and may be negative; the map stays invertible while 2 mu + 3 mu_b != 0
      for (double r : {0.0, 0.001, 0.6, 1.0, 250.0, -0.25, -2.0}) {
        const T mub = (T)(r * (double)mu);
        const CNF cmp(DynamicViscosity<T>(mu, V), BulkDynamicViscosity<T>(mub, V));
        maps<CNF, T, float>("CompressibleNewtonianFluid", cmp, mu, mub);
        maps<CNF, T, double>("CompressibleNewtonianFluid", cmp, mu, mub);
        maps<CNF, T, long double>("CompressibleNewtonianFluid", cmp, mu, mub);
        vf::stat("materials");
      }
      // from a dynamic viscosity alone: zero bulk viscosity, identical behaviour to (mu, 0)
      const CNF one{DynamicViscosity<T>(mu, V)};
      const CNF two(DynamicViscosity<T>(mu, V), BulkDynamicViscosity<T>((T)0, V));
      const T b = one.BulkDynamicViscosity().Value();
      bool ok = b == 0 && !std::signbit(b) && vf::same_bits(one.DynamicViscosity().Value(), mu);
      for (const auto& e6 : tensors<T>()) {
        const PhQ::StrainRate<T> D(sd(e6), Unit::Frequency::Hertz);
        T x[6], y[6];
        vf::comps(one.Stress(D), x);
        vf::comps(two.Stress(D), y);
        for (int i = 0; i < 6; i++) ok = ok && vf::same_bits(x[i], y[i]);
        vf::comps(one.StrainRate(one.Stress(D)), x);
        vf::comps(two.StrainRate(two.Stress(D)), y);
        for (int i = 0; i < 6; i++) ok = ok && vf::same_bits(x[i], y[i]);
      }
      vf::stat("viscosity_only_checks");
      if (!ok)
        vf::viol(std::string("compressible-from-viscosity-alone|") + vf::TName<T>::value, "{\"mu\":" + vf::jstr(vf::hex(mu)) + ",\"bulk_viscosity_reported\":" + vf::jstr(vf::hex(b)) + "}");
    }
  // call histories across model objects: every ordered pair of a small set of fluids (equal shear with different bulk viscosity,
  // bulk equal to shear, bulk zero, another shear viscosity) evaluated back to back in each argument precision
  {
    const T sp[][2] = {{(T)1.5, (T)0}, {(T)1.5, (T)0.5}, {(T)1.5, (T)1.5}, {(T)3, (T)1.5}, {(T)3, (T)0}, {(T)0.75, (T)1}, {(T)2, (T)-0.5}};
    for (const auto& a : sp)
      for (const auto& b : sp)
        for (const auto* m : {&a, &b}) {
          const CNF cmp(DynamicViscosity<T>((*m)[0], V), BulkDynamicViscosity<T>((*m)[1], V));
          maps<CNF, T, float>("CompressibleNewtonianFluid", cmp, (*m)[0], (*m)[1]);
          maps<CNF, T, double>("CompressibleNewtonianFluid", cmp, (*m)[0], (*m)[1]);
          maps<CNF, T, long double>("CompressibleNewtonianFluid", cmp, (*m)[0], (*m)[1]);
          const INF inc{DynamicViscosity<T>((*m)[0], V)};
          maps<INF, T, float>("IncompressibleNewtonianFluid", inc, (*m)[0], (T)0);
          maps<INF, T, double>("IncompressibleNewtonianFluid", inc, (*m)[0], (T)0);
          maps<INF, T, long double>("IncompressibleNewtonianFluid", inc, (*m)[0], (T)0);
          vf::stat("materials");
        }
  }
  if (std::is_same_v<T, double>) {
    const CNF m(DynamicViscosity<T>(1.5, V), BulkDynamicViscosity<T>(0.25, V));
    const PhQ::StrainRate<T> D(SymmetricDyad<T>(1, 2, 3, 4, 5, 6), Unit::Frequency::Hertz);
    vf::sample("{\"model\":\"CompressibleNewtonianFluid(mu=1.5, mu_b=0.25)\",\"strain_rate\":[1,2,3,4,5,6],\"stress\":" + vf::comps_hex(m.Stress(D)) + "}");
  }
}
int main(int argc, char** argv) {
  thorough = std::getenv("VERIF_TIER") && std::string(std::getenv("VERIF_TIER")) == "thorough";
  const std::string t = argc > 1 ? argv[1] : "double";
  if (t == "float") run<float>();
  if (t == "double") run<double>();
  if (t == "longdouble") run<long double>();
  return 0;
}
