// c14_common.hpp - total-order / equivalence / hash oracle over a finite value set S = A^n.
#pragma once
#include <locale>
#include <set>
#include <unordered_set>

#include "vf.hpp"

namespace c14 {
static bool thorough() {
  static const bool t = std::getenv("VERIF_TIER") && std::string(std::getenv("VERIF_TIER")) == "thorough";
  return t;
}
template <class T>
std::vector<T> alphabet(int n) {
  const T inf = std::numeric_limits<T>::infinity();
  if (n == 1)
    return {-inf, -std::numeric_limits<T>::max(), (T)-1, -std::numeric_limits<T>::min(), -std::numeric_limits<T>::denorm_min(), -(T)0, (T)0,
            std::numeric_limits<T>::denorm_min(), std::numeric_limits<T>::min(), (T)1, std::nextafter((T)1, (T)2), std::numeric_limits<T>::max(), inf};
  if (n <= 3) return {-inf, (T)-1, -(T)0, (T)0, (T)1, inf};
  if (n == 6) return {(T)-1, -(T)0, (T)0, (T)1};
  if (thorough()) return {(T)-1, (T)0, (T)1};
  return {(T)0, (T)1};
}
template <class T>
int lex(const T* a, const T* b, int n) {
  for (int i = 0; i < n; i++) {
    if (a[i] < b[i]) return -1;
    if (a[i] > b[i]) return 1;
  }
  return 0;
}
template <class T>
std::string show(const T* a, int n) {
  std::string s = "[";
  for (int i = 0; i < n; i++) s += (i ? "," : "") + vf::jstr(vf::hex(a[i]));
  return s + "]";
}

// X: type under test; N: components; get(x, T*) reads the stored components; mk(const T*) builds.
// part/nparts split the outer loop of the pair enumeration.
template <class X, class T, int N, class MK, class GET>
void check_type(const std::string& name, MK&& mk, GET&& get, int part, int nparts) {
  std::vector<T> A = alphabet<T>(N);
  std::vector<X> S;
  std::vector<std::array<T, N>> C;
  long total = 1;
  for (int i = 0; i < N; i++) total *= (long)A.size();
  auto push = [&](const T* c) {
    X x = mk(c);
    std::array<T, N> r;
    get(x, r.data());  // the reference key is what the object actually stores
    bool nan = false;
    for (T v : r) nan |= std::isnan(v);
    if (nan) return;
    S.push_back(x);
    C.push_back(r);
  };
  for (long k = 0; k < total; k++) {
    T c[N];
    long r = k;
    for (int i = 0; i < N; i++) {
      c[i] = A[r % A.size()];
      r /= (long)A.size();
    }
    push(c);
  }
  if (N >= 2) {
    // tie-prefix family: equal in the first k slots, slot k drawn from signed zeros, infinities, the floating-point neighbours of 1
    // (distinguishable only at the full precision of T) and the extremes of T's range, then a tail pointing the other way
    const T ex[] = {-std::numeric_limits<T>::infinity(), -(T)0, (T)0, std::numeric_limits<T>::infinity(), (T)2, std::nextafter((T)1, (T)2), std::nextafter((T)1, (T)0),
                    std::numeric_limits<T>::max(), std::numeric_limits<T>::max() / 2, std::numeric_limits<T>::min(), std::numeric_limits<T>::min() * 2};
    for (int k = 0; k < N; k++)
      for (T v : ex)
        for (int tail = 0; tail < 2; tail++) {
          T c[N];
          for (int i = 0; i < N; i++) c[i] = i < k ? (T)1 : (i == k ? v : (T)(tail ? -1 : 1));
          push(c);
        }
  }
  const std::string key = "order|" + name + "|" + vf::TName<T>::value;
  std::hash<X> H;
  long long pairs = 0, ties = 0;
  for (size_t i = part; i < S.size(); i += nparts) {
    const X& a = S[i];
    const size_t ha = H(a);
    for (size_t j = 0; j < S.size(); j++) {
      const X& b = S[j];
      const int c = lex(C[i].data(), C[j].data(), N);
      pairs++;
      // a tie in a leading component decided by a later one, or a full tie between distinct bit patterns
      if (N > 1 && C[i][0] == C[j][0]) ties++;
      const bool eq = a == b, ne = a != b, lt = a < b, gt = a > b, le = a <= b, ge = a >= b;
      bool ok = eq == (c == 0) && ne == (c != 0) && lt == (c < 0) && gt == (c > 0) && le == (c <= 0) && ge == (c >= 0);
      const char* what = "operators-disagree-with-lexicographic-order";
      // the same six answers whatever the value category of the operands (every seventh pair: temporaries on either side), and
      // when both operands are one object
      if (ok && (i + j) % 7 == 0) {
        if constexpr (std::is_copy_constructible_v<X>) {
          ok = (X(a) == b) == eq && (a != X(b)) == ne && (X(a) < X(b)) == lt && (a > X(b)) == gt && (X(a) <= b) == le && (X(a) >= X(b)) == ge && H(X(a)) == ha;
          if (!ok) what = "temporaries-compare-differently-from-named-objects";
        }
      }
      if (ok && i == j) {
        ok = (a == a) && !(a != a) && !(a < a) && !(a > a) && (a <= a) && (a >= a);
        if (!ok) what = "an-object-compared-with-itself";
      }
      if (ok && c == 0 && ha != H(b)) {
        ok = false;
        what = "equal-objects-hash-differently";
      }
      if (!ok)
        vf::viol(key + "|" + what, "{\"type\":" + vf::jstr(name) + ",\"a\":" + show(C[i].data(), N) + ",\"b\":" + show(C[j].data(), N) + ",\"lexicographic\":" +
                                       std::to_string(c) + ",\"eq\":" + std::to_string(eq) + ",\"ne\":" + std::to_string(ne) + ",\"lt\":" + std::to_string(lt) +
                                       ",\"gt\":" + std::to_string(gt) + ",\"le\":" + std::to_string(le) + ",\"ge\":" + std::to_string(ge) + ",\"hash_a\":" +
                                       std::to_string(ha) + ",\"hash_b\":" + std::to_string(H(b)) + "}");
    }
  }
  vf::stat("ordered_pairs", pairs);
  vf::stat("pairs_with_tie_in_leading_component", ties);
  if (part == 0) {
    // containers: every element is found again; sizes equal the number of equivalence classes
    std::set<X> os(S.begin(), S.end());
    std::unordered_set<X> us(S.begin(), S.end());
    auto cmp = [&](const std::array<T, N>& x, const std::array<T, N>& y) { return lex(x.data(), y.data(), N) < 0; };
    std::set<std::array<T, N>, decltype(cmp)> ref(cmp);
    for (auto& c : C) ref.insert(c);
    bool ok = os.size() == ref.size() && us.size() == ref.size();
    for (auto& x : S) ok = ok && os.count(x) == 1 && us.count(x) == 1;
    vf::stat("container_round_trips");
    // the hash is a function of the stored value only: the same after the global locale was changed to one with a comma as
    // decimal point and digit grouping (a hash computed from printed text changes here), and through a copy of the object
    {
      struct Comma : std::numpunct<char> {
        char do_decimal_point() const override { return ','; }
        char do_thousands_sep() const override { return '.'; }
        std::string do_grouping() const override { return "\3"; }
      };
      std::vector<size_t> before;
      for (auto& x : S) before.push_back(H(x));
      const std::locale old = std::locale::global(std::locale(std::locale::classic(), new Comma));
      bool same = true;
      for (size_t i = 0; i < S.size(); i++) same = same && H(S[i]) == before[i] && H(X(S[i])) == before[i];
      std::locale::global(old);
      vf::stat("hashes_recomputed_under_another_locale", (long long)S.size());
      if (!same) vf::viol("hash-depends-on-global-locale|" + name + "|" + vf::TName<T>::value, "{\"type\":" + vf::jstr(name) + "}");
    }
    vf::stat("container_elements", (long long)S.size());
    if (!ok)
      vf::viol("containers|" + name + "|" + vf::TName<T>::value, "{\"type\":" + vf::jstr(name) + ",\"elements\":" + std::to_string(S.size()) + ",\"equivalence_classes\":" +
                                                                       std::to_string(ref.size()) + ",\"std_set_size\":" + std::to_string(os.size()) + ",\"unordered_set_size\":" + std::to_string(us.size()) + "}");
    vf::stat("type_instances");
  }
}
}  // namespace c14
