// c14_core.cpp - comparison / hash of the 4 vector/tensor classes and the 3 constitutive models.
// usage: c14_core <float|double|longdouble> <part> <nparts>
#include <PhQ/ConstitutiveModel/CompressibleNewtonianFluid.hpp>
#include <PhQ/ConstitutiveModel/ElasticIsotropicSolid.hpp>
#include <PhQ/ConstitutiveModel/IncompressibleNewtonianFluid.hpp>

#include "probe.hpp"
#include "c14_common.hpp"

template <class T>
void all(int part, int nparts) {
  using namespace PhQ;
  auto getraw = [](const auto& x, T* o) { vf::comps(x, o); };
  c14::check_type<PlanarVector<T>, T, 2>("PlanarVector", [](const T* c) { return PlanarVector<T>(c[0], c[1]); }, getraw, part, nparts);
  c14::check_type<Vector<T>, T, 3>("Vector", [](const T* c) { return Vector<T>(c[0], c[1], c[2]); }, getraw, part, nparts);
  c14::check_type<SymmetricDyad<T>, T, 6>("SymmetricDyad", [](const T* c) { return SymmetricDyad<T>(c[0], c[1], c[2], c[3], c[4], c[5]); }, getraw, part, nparts);
  c14::check_type<Dyad<T>, T, 9>("Dyad", [](const T* c) { return Dyad<T>(c[0], c[1], c[2], c[3], c[4], c[5], c[6], c[7], c[8]); }, getraw, part, nparts);
  using P = Unit::Pressure;
  using V = Unit::DynamicViscosity;
  using EIS = ConstitutiveModel::ElasticIsotropicSolid<T>;
  using CNF = ConstitutiveModel::CompressibleNewtonianFluid<T>;
  using INF = ConstitutiveModel::IncompressibleNewtonianFluid<T>;
  c14::check_type<EIS, T, 2>(
      "ElasticIsotropicSolid", [](const T* c) { return EIS(ShearModulus<T>(c[0], Standard<P>), LameFirstModulus<T>(c[1], Standard<P>)); },
      [](const EIS& m, T* o) {
        o[0] = m.ShearModulus().Value();
        o[1] = m.LameFirstModulus().Value();
      },
      part, nparts);
  c14::check_type<CNF, T, 2>(
      "CompressibleNewtonianFluid", [](const T* c) { return CNF(DynamicViscosity<T>(c[0], Standard<V>), BulkDynamicViscosity<T>(c[1], Standard<V>)); },
      [](const CNF& m, T* o) {
        o[0] = m.DynamicViscosity().Value();
        o[1] = m.BulkDynamicViscosity().Value();
      },
      part, nparts);
  c14::check_type<INF, T, 1>(
      "IncompressibleNewtonianFluid", [](const T* c) { return INF(DynamicViscosity<T>(c[0], Standard<V>)); }, [](const INF& m, T* o) { o[0] = m.DynamicViscosity().Value(); }, part,
      nparts);
}
int main(int argc, char** argv) {
  const std::string t = argc > 1 ? argv[1] : "double";
  const int part = argc > 2 ? std::atoi(argv[2]) : 0, nparts = argc > 3 ? std::atoi(argv[3]) : 1;
  if (t == "float") all<float>(part, nparts);
  if (t == "double") all<double>(part, nparts);
  if (t == "longdouble") all<long double>(part, nparts);
  if (t == "double" && part == 0) vf::sample("{\"type\":\"Vector<double>\",\"a\":[\"inf\",1,0],\"b\":[\"inf\",2,0],\"expected\":\"a<b by the second component\"}");
  return 0;
}
