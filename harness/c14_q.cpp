// c14_q.cpp - comparison / hash of every selected quantity type x 3 numeric types.
// usage: c14_q <part> <nparts>
#include "probe.hpp"
#include "c14_common.hpp"
static int PART = 0, NPARTS = 1;
struct F {
  template <template <class> class Q>
  void operator()(const char* name) {
    one<Q<float>>(name);
    one<Q<double>>(name);
    one<Q<long double>>(name);
  }
  template <class Q>
  void one(const char* name) {
    using T = vf::num_t<Q>;
    constexpr int n = vf::ncomp<Q>;
    auto mk = [](const T* c) { return vf::make<Q>(c); };
    auto get = [](const Q& q, T* o) { vf::comps(q, o); };
    c14::check_type<Q, T, n>(name, mk, get, PART, NPARTS);
  }
};
int main(int argc, char** argv) {
  PART = argc > 1 ? std::atoi(argv[1]) : 0;
  NPARTS = argc > 2 ? std::atoi(argv[2]) : 1;
  vf::for_each_selq(F{});
}
