// c15_num.cpp - PhQ::Print(x) / PhQ::ParseNumber<T>: digit count, notation choice, lossless round
// trip. usage: c15_num <float|double|longdouble> <part> <nparts>
#include <cerrno>
#include <PhQ/Base.hpp>

#include "vf.hpp"
static bool thorough = false;

struct Shape {
  bool scientific;
  int sigdigits;
  bool wellformed;
};
// analyse the text of a printed number
static Shape analyse(const std::string& s) {
  Shape r{false, 0, true};
  size_t i = 0;
  if (i < s.size() && s[i] == '-') i++;
  const size_t e = s.find_first_of("eE");
  r.scientific = e != std::string::npos;
  const std::string mant = s.substr(i, (r.scientific ? e : s.size()) - i);
  // mantissa: digits with at most one '.'
  int dots = 0;
  bool leading = true;
  for (char c : mant) {
    if (c == '.') {
      dots++;
      continue;
    }
    if (!std::isdigit((unsigned char)c)) {
      r.wellformed = false;
      continue;
    }
    if (leading && c == '0') continue;  // leading zeros are not significant
    leading = false;
    r.sigdigits++;
  }
  if (dots > 1 || mant.empty()) r.wellformed = false;
  if (r.scientific) {
    // d.ddd...e[+-]dd : exactly one digit before the point, which must be non-zero
    if (mant.size() < 2 || !std::isdigit((unsigned char)mant[0]) || mant[0] == '0' || (mant.size() > 1 && mant[1] != '.')) r.wellformed = false;
    const std::string ex = s.substr(e + 1);
    if (ex.size() < 2 || (ex[0] != '+' && ex[0] != '-')) r.wellformed = false;
    for (size_t k = 1; k < ex.size(); k++)
      if (!std::isdigit((unsigned char)ex[k])) r.wellformed = false;
  }
  return r;
}

template <class T>
static void check(T x) {
  vf::stat("numbers");
  const std::string s = PhQ::Print(x);
  const T ax = std::fabs(x);
  auto fail = [&](const char* why) {
    vf::viol(std::string("print|") + vf::TName<T>::value + "|" + why, std::string("{\"x\":") + vf::jstr(vf::hex(x)) + ",\"printed\":" + vf::jstr(s) + ",\"why\":" + vf::jstr(why) + "}");
  };
  if (x == 0) {
    if (s != "0") fail("zero-not-printed-as-0");
    return;
  }
  const Shape sh = analyse(s);
  if (!sh.wellformed) return fail("malformed");
  const int want_digits = std::numeric_limits<T>::max_digits10 + 1;
  if (sh.sigdigits != want_digits) return fail("wrong-number-of-significant-digits");
  // fixed iff 0.001 <= |x| < 10000, compared exactly (x is a binary fraction; the bounds in __float128 are exact enough:
  // 0.001 is not representable, so the comparison is against the rational 1/1000 via x*1000 >= 1 in __float128, which is
  // exact for T mantissas up to 64 bits since 1000 < 2^10 and 64+10 < 113)
  const vf::f128 q = (vf::f128)ax;
  const bool should_fixed = (q * 1000 >= 1) && (q < 10000);
  if (should_fixed == sh.scientific) return fail(should_fixed ? "scientific-inside-fixed-interval" : "fixed-outside-fixed-interval");
  if ((x < 0) != (s[0] == '-')) return fail("sign");
  // parsing is a function of the text: whatever an unrelated earlier call left in errno (alternating here) must not matter
  static unsigned alternate = 0;
  errno = (alternate++ & 1) ? ERANGE : 0;
  const std::optional<T> back = PhQ::ParseNumber<T>(s);
  errno = 0;
  if (!back.has_value()) return fail("does-not-parse-back");
  if (!vf::same_bits(back.value(), x)) return fail("parses-back-to-a-different-number");
  vf::stat("nontrivial_numbers");
}

template <class T, class U>
static T from_bits(U b) {
  T x;
  std::memcpy(&x, &b, sizeof b);
  return x;
}

template <class T>
static void neighbourhood(T c, int radius, int part, int nparts) {
  T x = c;
  for (int k = 0; k <= radius; k++) {
    if ((k % nparts) == part && std::isnormal(x)) {
      check<T>(x);
      check<T>(-x);
    }
    x = std::nextafter(x, std::numeric_limits<T>::infinity());
  }
  x = c;
  for (int k = 0; k <= radius; k++) {
    if ((k % nparts) == part && std::isnormal(x)) {
      check<T>(x);
      check<T>(-x);
    }
    x = std::nextafter(x, (T)0);
  }
}

template <class T>
static void run(int part, int nparts) {
  // (1) interval boundaries and their floating-point neighbours
  const int rad = thorough ? 4096 : 1024;
  for (long double b : {0.001L, 0.01L, 0.1L, 1.0L, 10.0L, 100.0L, 1000.0L, 10000.0L}) neighbourhood<T>((T)b, rad, part, nparts);
  // (2) all powers of two and of ten in range, with neighbours
  const int r2 = thorough ? 1024 : 16;
  for (int e = std::numeric_limits<T>::min_exponent; e < std::numeric_limits<T>::max_exponent; e++)
    if ((e % nparts + nparts) % nparts == part) {
      T x = std::ldexp((T)1, e);
      T lo = x, hi = x;
      for (int k = 0; k <= r2; k++) {
        if (std::isnormal(lo)) check<T>(lo);
        if (std::isnormal(hi) && k) check<T>(hi);
        lo = std::nextafter(lo, (T)0);
        hi = std::nextafter(hi, std::numeric_limits<T>::infinity());
      }
    }
  for (int e = std::numeric_limits<T>::min_exponent10; e <= std::numeric_limits<T>::max_exponent10; e++)
    if ((e % nparts + nparts) % nparts == part) {
      const T x = (T)powl(10.0L, e);
      neighbourhood<T>(x, thorough ? 64 : 4, 0, 1);
    }
  if (part == 0) {
    check<T>(std::numeric_limits<T>::min());
    check<T>(std::numeric_limits<T>::max());
    check<T>(-std::numeric_limits<T>::max());
    check<T>((T)0);
    check<T>(-(T)0);
    vf::sample(std::string("{\"type\":") + vf::jstr(vf::TName<T>::value) + ",\"x\":\"0.1\",\"printed\":" + vf::jstr(PhQ::Print((T)0.1L)) + "}");
    vf::sample(std::string("{\"type\":") + vf::jstr(vf::TName<T>::value) + ",\"x\":\"9999.999..\",\"printed\":" + vf::jstr(PhQ::Print(std::nextafter((T)10000, (T)0))) + "}");
  }
  // (3) bit patterns
  if constexpr (std::is_same_v<T, float>) {
    // thorough: ALL 2^32 bit patterns (finite normal ones are checked); quick: every 4093rd
    const uint64_t step = thorough ? 1 : 4093;
    const uint64_t total = 1ULL << 32, chunk = (total + nparts - 1) / nparts;
    const uint64_t lo = chunk * part, hi = std::min(total, chunk * (part + 1));
    long long skipped = 0;
    for (uint64_t b = lo + (step - lo % step) % step; b < hi; b += step) {
      const float x = from_bits<float>((uint32_t)b);
      if (!std::isnormal(x)) {
        skipped++;
        continue;
      }
      check<float>(x);
    }
    vf::stat("bit_patterns_not_finite_normal_skipped", skipped);
  } else {
    // stratified bit patterns over the whole exponent range x mantissa strata (seed-dependent extras)
    unsigned long long s = 0x2545F4914F6CDD1DULL ^ (unsigned long long)std::atoll(std::getenv("VERIF_SEED") ? std::getenv("VERIF_SEED") : "0");
    const long N = thorough ? (1L << 22) : (1L << 16);
    const int emin = std::numeric_limits<T>::min_exponent, emax = std::numeric_limits<T>::max_exponent;
    for (long k = 0; k < N; k++) {
      s = s * 6364136223846793005ULL + 1442695040888963407ULL;
      const unsigned long long r1 = s;
      s = s * 6364136223846793005ULL + 1442695040888963407ULL;
      if ((k % nparts) != part) continue;
      // stratum k of N: exponent sweeps the range, mantissa random
      const int e = emin + (int)(((__int128)k * (emax - emin)) / N);
      long double m = 1.0L + (long double)(r1 >> 1) / (long double)(1ULL << 63);  // [1,2)
      T x = (T)std::ldexp(m, e - 1);
      if ((s >> 40) & 1) x = -x;
      if (std::isnormal(x)) check<T>(x);
    }
  }
}
int main(int argc, char** argv) {
  thorough = std::getenv("VERIF_TIER") && std::string(std::getenv("VERIF_TIER")) == "thorough";
  const std::string t = argc > 1 ? argv[1] : "double";
  const int part = argc > 2 ? std::atoi(argv[2]) : 0, nparts = argc > 3 ? std::atoi(argv[3]) : 1;
  if (t == "float") run<float>(part, nparts);
  if (t == "double") run<double>(part, nparts);
  if (t == "longdouble") run<long double>(part, nparts);
  return 0;
}
