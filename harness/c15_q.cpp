// c15_q.cpp - composite printing: Print/JSON/XML/YAML/operator<< of the selected quantity types (and,
// with -DVF_C15_CORE, of the 4 vector/tensor classes) consist of exactly the strings PhQ::Print(c_i)
// in declared component order plus the unit abbreviation; JSON is valid JSON with those fields.
#include <iomanip>
#include <sstream>

#include "probe.hpp"
#include "reflect.hpp"

// ---- tiny recursive-descent JSON validator; records keys, strings and number texts in document order
struct Json {
  const std::string& s;
  size_t i = 0;
  std::vector<std::string> numbers, keys, strings;
  bool ok = true;
  explicit Json(const std::string& t) : s(t) {}
  void ws() {
    while (i < s.size() && (s[i] == ' ' || s[i] == '\t' || s[i] == '\n' || s[i] == '\r')) i++;
  }
  bool str(std::string& out) {
    if (i >= s.size() || s[i] != '"') return false;
    i++;
    while (i < s.size() && s[i] != '"') {
      if ((unsigned char)s[i] < 0x20) return false;
      if (s[i] == '\\') {
        i++;
        if (i >= s.size()) return false;
      }
      out += s[i++];
    }
    if (i >= s.size()) return false;
    i++;
    return true;
  }
  bool num() {
    const size_t b = i;
    if (i < s.size() && s[i] == '-') i++;
    if (i >= s.size() || !std::isdigit((unsigned char)s[i])) return false;
    if (s[i] == '0') {
      i++;
    } else
      while (i < s.size() && std::isdigit((unsigned char)s[i])) i++;
    if (i < s.size() && s[i] == '.') {
      i++;
      if (i >= s.size() || !std::isdigit((unsigned char)s[i])) return false;
      while (i < s.size() && std::isdigit((unsigned char)s[i])) i++;
    }
    if (i < s.size() && (s[i] == 'e' || s[i] == 'E')) {
      i++;
      if (i < s.size() && (s[i] == '+' || s[i] == '-')) i++;
      if (i >= s.size() || !std::isdigit((unsigned char)s[i])) return false;
      while (i < s.size() && std::isdigit((unsigned char)s[i])) i++;
    }
    numbers.push_back(s.substr(b, i - b));
    return true;
  }
  bool value() {
    ws();
    if (i >= s.size()) return false;
    if (s[i] == '{') {
      i++;
      ws();
      if (i < s.size() && s[i] == '}') {
        i++;
        return true;
      }
      for (;;) {
        ws();
        std::string k;
        if (!str(k)) return false;
        keys.push_back(k);
        ws();
        if (i >= s.size() || s[i] != ':') return false;
        i++;
        if (!value()) return false;
        ws();
        if (i < s.size() && s[i] == ',') {
          i++;
          continue;
        }
        if (i < s.size() && s[i] == '}') {
          i++;
          return true;
        }
        return false;
      }
    }
    if (s[i] == '[') {
      i++;
      ws();
      if (i < s.size() && s[i] == ']') {
        i++;
        return true;
      }
      for (;;) {
        if (!value()) return false;
        ws();
        if (i < s.size() && s[i] == ',') {
          i++;
          continue;
        }
        if (i < s.size() && s[i] == ']') {
          i++;
          return true;
        }
        return false;
      }
    }
    if (s[i] == '"') {
      std::string t;
      if (!str(t)) return false;
      strings.push_back(t);
      return true;
    }
    for (const char* lit : {"true", "false", "null"})
      if (s.compare(i, std::strlen(lit), lit) == 0) {
        i += std::strlen(lit);
        return true;
      }
    return num();
  }
  bool parse() {
    ok = value();
    ws();
    ok = ok && i == s.size();
    return ok;
  }
};
// number texts of a non-JSON serialisation (after removing the unit abbreviation at the end / inside quotes)
static std::vector<std::string> number_texts(std::string s, const std::string& abbr) {
  if (!abbr.empty()) {
    auto p = s.rfind(abbr);
    if (p != std::string::npos) s.erase(p, abbr.size());
  }
  std::vector<std::string> out;
  size_t i = 0;
  while (i < s.size()) {
    const bool d = std::isdigit((unsigned char)s[i]);
    const bool neg = s[i] == '-' && i + 1 < s.size() && std::isdigit((unsigned char)s[i + 1]);
    if (!(d || neg) || (i > 0 && (std::isalpha((unsigned char)s[i - 1]) || s[i - 1] == '_'))) {
      i++;
      continue;
    }
    size_t j = i + 1;
    while (j < s.size()) {
      char c = s[j];
      if (std::isdigit((unsigned char)c) || c == '.')
        j++;
      else if ((c == 'e' || c == 'E') && j + 1 < s.size() && (std::isdigit((unsigned char)s[j + 1]) || ((s[j + 1] == '-' || s[j + 1] == '+') && j + 2 < s.size() && std::isdigit((unsigned char)s[j + 2]))))
        j += 2;
      else
        break;
    }
    out.push_back(s.substr(i, j - i));
    i = j;
  }
  return out;
}
static bool xml_balanced(const std::string& s) {
  std::vector<std::string> st;
  size_t i = 0;
  while (i < s.size()) {
    if (s[i] != '<') {
      i++;
      continue;
    }
    size_t j = s.find('>', i);
    if (j == std::string::npos) return false;
    std::string tag = s.substr(i + 1, j - i - 1);
    if (tag.empty()) return false;
    if (tag[0] == '/') {
      if (st.empty() || st.back() != tag.substr(1)) return false;
      st.pop_back();
    } else
      st.push_back(tag);
    i = j + 1;
  }
  return st.empty();
}
static bool braces_balanced(const std::string& s) {
  int d = 0;
  bool inq = false;
  for (char c : s) {
    if (c == '"') inq = !inq;
    if (inq) continue;
    if (c == '{') d++;
    if (c == '}') d--;
    if (d < 0) return false;
  }
  return d == 0 && !inq;
}
static const char* const KEYS2[] = {"x", "y"};
static const char* const KEYS3[] = {"x", "y", "z"};
static const char* const KEYS6[] = {"xx", "xy", "xz", "yy", "yz", "zz"};
static const char* const KEYS9[] = {"xx", "xy", "xz", "yx", "yy", "yz", "zx", "zy", "zz"};

template <class T>
static std::vector<std::array<T, 9>> value_sets() {
  // per-slot distinct values spread over the notation intervals of PhQ::Print
  const long double base[] = {0.000123456L, -12.5L, 98765.4321L, 1.0L / 3, -0.0625L, 1e-30L, 7.0L, 1234.5L, -1e10L, 0.00999L, -0.0L, -999.9995L, 10000.0L, 0.1L, 3e20L, -4.5e-7L, 2.0L, 65536.0L};
  std::vector<std::array<T, 9>> out;
  for (int r = 0; r < 2; r++) {
    std::array<T, 9> a;
    for (int i = 0; i < 9; i++) a[i] = (T)base[(i + 9 * r) % 18];
    out.push_back(a);
  }
  return out;
}

template <class X, class T, int N>
static void check_forms(const std::string& name, const std::string& form, const X& obj, const T* c, const std::string& abbr, bool dimensional, const std::string& p, const std::string& j,
                        const std::string& x, const std::string& y, const std::string* streamed) {
  std::vector<std::string> want;
  for (int i = 0; i < N; i++) want.push_back(PhQ::Print(c[i]));
  const std::string tag = name + "|" + vf::TName<T>::value + "|" + form;
  auto show = [&](const std::string& which, const std::string& text) {
    std::string w = "[";
    for (size_t i = 0; i < want.size(); i++) w += (i ? "," : "") + vf::jstr(want[i]);
    vf::viol("composite|" + tag + "|" + which, "{\"type\":" + vf::jstr(name) + ",\"form\":" + vf::jstr(form) + ",\"text\":" + vf::jstr(text) + ",\"expected_numbers\":" + w + "],\"unit\":" + vf::jstr(abbr) + "}");
  };
  vf::stat("serialisations", 4);
  if (number_texts(p, abbr) != want) show("Print-numbers", p);
  if (dimensional && (p.size() < abbr.size() + 1 || p.compare(p.size() - abbr.size(), abbr.size(), abbr) != 0 || p[p.size() - abbr.size() - 1] != ' ')) show("Print-unit", p);
  Json js(j);
  if (!js.parse()) {
    show("JSON-invalid", j);
  } else {
    if (js.numbers != want) show("JSON-numbers", j);
    if (dimensional && (js.strings.size() != 1 || js.strings[0] != abbr)) show("JSON-unit", j);
    if (!dimensional && !js.strings.empty()) show("JSON-unexpected-string", j);
    // component keys in declared order (after the optional "value" wrapper, before "unit")
    std::vector<std::string> ck;
    for (auto& k : js.keys)
      if (k != "value" && k != "unit") ck.push_back(k);
    const char* const* kw = N == 2 ? KEYS2 : N == 3 ? KEYS3 : N == 6 ? KEYS6 : KEYS9;
    bool kok = N == 1 ? ck.empty() : (int)ck.size() == N;
    for (int i = 0; kok && N > 1 && i < N; i++) kok = ck[i] == kw[i];
    if (!kok) show("JSON-component-keys", j);
    if (dimensional && (js.keys.empty() || js.keys.front() != "value" || js.keys.back() != "unit")) show("JSON-fields", j);
  }
  if (number_texts(x, abbr) != want || !xml_balanced(x)) show("XML", x);
  if (dimensional && x.find(abbr) == std::string::npos) show("XML-unit", x);
  if (number_texts(y, abbr) != want || !braces_balanced(y)) show("YAML", y);
  if (dimensional && y.find(abbr) == std::string::npos) show("YAML-unit", y);
  if (streamed && *streamed != p) show("stream-differs-from-Print", *streamed);
}

// "streaming equals printing" in EVERY stream state, not only a fresh stream: field width with either adjustment and a fill
// character, floating-point flags and precision left over from earlier output, two objects in one statement. The same
// statement with x.Print() in place of x must give the same characters and leave the stream in the same state.
template <class X>
static void check_stream_states(const std::string& name, const X& x) {
  const std::string printed = x.Print();
  for (int st = 0; st < 6; st++) {
    std::ostringstream a, b;
    auto prepare = [&](std::ostringstream& o) {
      if (st == 1) o << std::setw((int)printed.size() + 7) << std::setfill('*');
      if (st == 2) o << std::left << std::setw((int)printed.size() + 3) << std::setfill('.');
      if (st == 3) o << std::scientific << std::setprecision(3) << std::showpos << std::uppercase;
      if (st == 4) o << std::setw(2);
      if (st == 5) o << std::internal << std::setw((int)printed.size() + 1) << std::hexfloat;
    };
    prepare(a);
    prepare(b);
    a << x << '|' << x << '|' << 1.5 << '|';
    b << printed << '|' << printed << '|' << 1.5 << '|';
    vf::stat("stream_state_checks");
    if (a.str() != b.str() || a.width() != b.width() || a.flags() != b.flags() || a.precision() != b.precision()) {
      vf::viol("stream-state|" + name + "|" + vf::TName<vf::num_t<X>>::value + "|state" + std::to_string(st),
               "{\"type\":" + vf::jstr(name) + ",\"stream_state\":" + std::to_string(st) + ",\"streamed\":" + vf::jstr(a.str()) + ",\"printed_then_streamed\":" + vf::jstr(b.str()) + "}");
      return;
    }
  }
}
// What Print / JSON / XML / YAML returned stays what it was when the same function is asked of another object afterwards
// (results bound by reference, as a caller may: a function returning a reference to a shared buffer fails here).
template <class X>
static void check_held_strings(const std::string& name, const X& x, const X& other) {
  bool ok = true;
  auto held = [&](auto get) {
    const auto& first = get(x);
    const std::string before(first);
    const auto& second = get(other);
    (void)second;
    ok = ok && std::string(first) == before;
  };
  held([](const X& v) -> decltype(auto) { return v.Print(); });
  held([](const X& v) -> decltype(auto) { return v.JSON(); });
  held([](const X& v) -> decltype(auto) { return v.XML(); });
  held([](const X& v) -> decltype(auto) { return v.YAML(); });
  vf::stat("held_string_checks", 4);
  if (!ok) vf::viol("printed-text-changes-with-a-later-call|" + name + "|" + vf::TName<vf::num_t<X>>::value, "{\"type\":" + vf::jstr(name) + "}");
}
#ifndef VF_C15_CORE
struct F {
  template <template <class> class Q>
  void operator()(const char* name) {
    one<Q<float>>(name);
    one<Q<double>>(name);
    one<Q<long double>>(name);
  }
  template <class Q>
  void one(const char* name) {
    using T = vf::num_t<Q>;
    constexpr int N = vf::ncomp<Q>;
    for (const auto& vals : value_sets<T>()) {
      const Q q = vf::make<Q>(vals.data());
      T c[9];
      vf::comps(q, c);  // what is stored (directions normalise)
      std::ostringstream os;
      os << q;
      const std::string st = os.str();
      check_stream_states(name, q);
      check_held_strings(name, q, vf::make<Q>(value_sets<T>()[vals == value_sets<T>()[0] ? 1 : 0].data()));
      if constexpr (vf::HasUnit<Q>::value) {
        using U = std::decay_t<decltype(Q::Unit())>;
        check_forms<Q, T, N>(name, "standard", q, c, std::string(PhQ::Abbreviation(Q::Unit())), true, q.Print(), q.JSON(), q.XML(), q.YAML(), &st);
        for (const auto& en : vf::enumerators<U>()) {
          T cu[9];
          vf::comps(q.Value(en.value), cu);
          check_forms<Q, T, N>(name, "in-unit", q, cu, std::string(PhQ::Abbreviation(en.value)), true, q.Print(en.value), q.JSON(en.value), q.XML(en.value), q.YAML(en.value), nullptr);
          vf::stat("unit_forms");
        }
      } else {
        check_forms<Q, T, N>(name, "standard", q, c, "", false, q.Print(), q.JSON(), q.XML(), q.YAML(), &st);
      }
    }
    vf::stat("type_instances");
    if (std::string(name) == "Stress" && std::is_same_v<T, float>) {
      const Q q = vf::make<Q>(value_sets<T>()[0].data());
      vf::sample("{\"type\":\"Stress<float>\",\"JSON\":" + vf::jstr(q.JSON()) + ",\"Print\":" + vf::jstr(q.Print()) + "}");
    }
  }
};
int main() { vf::for_each_selq(F{}); }
#else
template <class X, class T, int N>
void core(const char* name) {
  for (const auto& vals : value_sets<T>()) {
    const X v = vf::RawMake<X>::make(vals.data());
    std::ostringstream os;
    os << v;
    const std::string st = os.str();
    check_stream_states(name, v);
    check_forms<X, T, N>(name, "standard", v, vals.data(), "", false, v.Print(), v.JSON(), v.XML(), v.YAML(), &st);
  }
  vf::stat("type_instances");
}
template <class T>
void all() {
  core<PhQ::PlanarVector<T>, T, 2>("PlanarVector");
  core<PhQ::Vector<T>, T, 3>("Vector");
  core<PhQ::SymmetricDyad<T>, T, 6>("SymmetricDyad");
  core<PhQ::Dyad<T>, T, 9>("Dyad");
}
int main() {
  all<float>();
  all<double>();
  all<long double>();
}
#endif
