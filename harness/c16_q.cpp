// c16_q.cpp - changing floating-point precision casts each component and nothing else. For every
// selected quantity type (or, with -DVF_C16_CORE, the 4 vector/tensor classes), all 6 ordered pairs
// of distinct numeric types, converting construction and converting assignment (presence probed).
#include "probe.hpp"

template <class T>
static std::vector<std::array<T, 9>> values() {
  // per-slot distinct; several not representable in the narrower types; both signs; +-0; within float range
  const long double pool[] = {1.0L + 0x1p-30L, -(1.0L + 0x1p-60L), 1.0L / 3, 0.1L, -0.7L, 3.14159265358979323846264338327950288L, 0.0L, -0.0L, 1e30L, -1e-30L, 123456789.123456789L, -2.5L, 0x1.fffffffffffffp+100L, 7.0L, -1.0L / 7, 0x1p-100L, 65537.0L / 65536, -9.75e-5L};
  std::vector<std::array<T, 9>> out;
  for (int r = 0; r < 2; r++) {
    std::array<T, 9> a;
    for (int i = 0; i < 9; i++) a[i] = (T)pool[(i + 9 * r) % 18];
    out.push_back(a);
  }
  // the values of an exactly symmetric tensor (slots (i,j) and (j,i) equal, the six independent ones distinct), and vectors
  // along one axis (0, +-1, 0 ...): structure-dependent shortcuts and zero tests with a forgotten component are met here
  {
    static const int sym[9] = {0, 1, 2, 1, 3, 4, 2, 4, 5};
    std::array<T, 9> a;
    for (int i = 0; i < 9; i++) a[i] = (T)pool[sym[i]];
    out.push_back(a);
    for (int axis = 0; axis < 3; axis++)
      for (int sg : {1, -1}) {
        std::array<T, 9> e{};
        e[axis] = (T)sg;
        out.push_back(e);
      }
  }
  // all zeros of both signs (a direction built from it is the zero direction), and values at and beyond the finite range
  // of the narrower types (IEEE-754 conversion: overflow to infinity; infinities stay infinities)
  {
    std::array<T, 9> z;
    for (int i = 0; i < 9; i++) z[i] = (i % 2) ? -(T)0 : (T)0;
    out.push_back(z);
    const T inf = std::numeric_limits<T>::infinity(), mx = std::numeric_limits<T>::max();
    std::array<T, 9> e = {inf, -inf, mx, -mx, (T)1e39L, (T)-1e39L, (T)3.5e38L, std::numeric_limits<T>::min(), std::numeric_limits<T>::denorm_min()};
    out.push_back(e);
  }
  return out;
}
// boundary values of the conversion T1 -> T2 when T2 has the smaller range: next to T2's largest finite value (just above
// it, just below and exactly at the rounding tie beyond which a cast gives infinity), next to its smallest normal and
// smallest subnormal values (ties to zero), tiny negatives that become -0. The oracle stays the compiler's plain cast.
template <class T1, class T2>
static std::vector<std::array<T1, 9>> boundary_values() {
  std::vector<std::array<T1, 9>> out;
  if constexpr (std::numeric_limits<T2>::max_exponent < std::numeric_limits<T1>::max_exponent) {
    const T1 inf = std::numeric_limits<T1>::infinity();
    const T1 mx = (T1)std::numeric_limits<T2>::max(), tie = mx + std::ldexp((T1)1, std::numeric_limits<T2>::max_exponent - std::numeric_limits<T2>::digits - 1);
    const T1 mn = (T1)std::numeric_limits<T2>::min(), dm = (T1)std::numeric_limits<T2>::denorm_min();
    out.push_back({std::nextafter(mx, inf), -std::nextafter(mx, inf), std::nextafter(tie, (T1)0), -std::nextafter(tie, (T1)0), tie, -tie, std::nextafter(tie, inf), mx, std::nextafter(mx, (T1)0)});
    out.push_back({std::nextafter(mn, (T1)0), -mn, std::nextafter(mn, inf), dm / 2, std::nextafter(dm / 2, inf), -std::nextafter(dm / 2, (T1)0), -dm / 4, dm * (T1)1.5, std::nextafter(dm * (T1)1.5, (T1)0)});
  }
  // witnesses of double rounding: values just beside a midpoint of the target type, so close that a detour through a type of
  // intermediate precision lands exactly on the midpoint and then rounds the other way (long double -> double -> float)
  if constexpr (std::numeric_limits<T2>::digits + 8 < std::numeric_limits<T1>::digits) {
    const int p2 = std::numeric_limits<T2>::digits, p1 = std::numeric_limits<T1>::digits;
    const T1 half = std::ldexp((T1)1, -p2), tiny = std::ldexp((T1)1, -(p1 - 2));
    out.push_back({(T1)1 + half + tiny, -((T1)1 + half + tiny), (T1)1 + 3 * half - tiny, std::ldexp((T1)1 + half + tiny, 10), std::ldexp((T1)1 + 3 * half - tiny, -7), (T1)3 + 2 * half + 2 * tiny,
                   -((T1)3 + 6 * half - 2 * tiny), std::ldexp((T1)1 + half + tiny, 40), std::ldexp((T1)1 + 3 * half - tiny, -40)});
  }
  return out;
}
template <class QA, class QB, class = void>
struct Assignable : std::false_type {};
template <class QA, class QB>
struct Assignable<QA, QB, std::void_t<decltype(std::declval<QA&>() = std::declval<const QB&>())>> : std::true_type {};

template <template <class> class Q, class T1, class T2>
void pair(const char* name) {
  using Q1 = Q<T1>;
  using Q2 = Q<T2>;
  constexpr int N = vf::count_of<Q1>();
  constexpr bool dir = vf::is_direction<Q1>;
  const std::string tag = std::string(name) + "|" + vf::TName<T1>::value + "->" + vf::TName<T2>::value;
  auto make1 = [](const T1* c) {
    if constexpr (vf::Shape<Q1>::n != 0)
      return vf::RawMake<Q1>::make(c);
    else
      return vf::make<Q1>(c);
  };
  auto make2 = [](const T2* c) {
    if constexpr (vf::Shape<Q2>::n != 0)
      return vf::RawMake<Q2>::make(c);
    else
      return vf::make<Q2>(c);
  };
  auto all_values = values<T1>();
  for (const auto& b : boundary_values<T1, T2>()) all_values.push_back(b);
  for (const auto& vals : all_values) {
    if constexpr (dir) {
      // a direction is built by normalising: infinite and overflowing components are outside its domain
      bool fin = true;
      for (int i = 0; i < N; i++) fin = fin && std::isfinite(vals[i]) && std::fabs((long double)vals[i]) < 1e18L;
      if (!fin) continue;
    }
    const Q1 src = make1(vals.data());
    T1 s[9];
    vf::comps(src, s);
    auto check = [&](const char* form, const Q2& dst) {
      T2 d[9];
      vf::comps(dst, d);
      vf::stat("conversions");
      for (int i = 0; i < N; i++) {
        const T2 want = static_cast<T2>(s[i]);
        bool ok;
        if constexpr (dir) {
          // re-normalised: within 2 ulp of the plain cast, measured in the coarser of the two types
          using TC = std::conditional_t<(std::numeric_limits<T1>::digits < std::numeric_limits<T2>::digits), T1, T2>;
          ok = (double)(fabsq((vf::f128)d[i] - (vf::f128)want) / vf::ulp_at<TC>(1)) <= 2.0;
        } else {
          ok = vf::same_bits(d[i], want);
        }
        if (!ok) {
          vf::viol("precision|" + tag + "|" + form, "{\"type\":" + vf::jstr(name) + ",\"form\":" + vf::jstr(form) + ",\"slot\":" + std::to_string(i) + ",\"source\":" + vf::comps_hex(src) +
                                                       ",\"result\":" + vf::comps_hex(dst) + ",\"expected_slot\":" + vf::jstr(vf::hex(want)) + "}");
          return;
        }
      }
      if constexpr (dir) {
        vf::f128 n2 = 0;
        bool zero = true;
        for (int i = 0; i < N; i++) {
          n2 += (vf::f128)d[i] * (vf::f128)d[i];
          zero = zero && s[i] == 0;
        }
        if (!zero && !((double)(fabsq(sqrtq(n2) - 1) / (vf::f128)std::numeric_limits<T2>::epsilon()) <= 4.0))
          vf::viol("precision|" + tag + "|" + form + "|not-unit-length", "{\"result\":" + vf::comps_hex(dst) + "}");
      }
    };
    if constexpr (std::is_constructible_v<Q2, const Q1&>) {
      check("converting-construction", Q2(src));
      // from a temporary as well (an overload taking an rvalue of the other precision must do the same)
      check("converting-construction-from-temporary", Q2(Q1(src)));
      vf::setadd("converting_members", std::string(name) + "|ctor");
    }
    if constexpr (Assignable<Q2, Q1>::value) {
      // the target holds something else beforehand; assigning twice must give the same
      T2 junk[9];
      for (int i = 0; i < 9; i++) junk[i] = (T2)(7 + 2 * i) * (i % 2 ? -1 : 1);
      Q2 dst = make2(junk);
      dst = src;
      check("converting-assignment", dst);
      dst = src;
      check("converting-assignment-twice", dst);
      {
        Q2 dst3 = make2(junk);
        dst3 = Q1(src);
        check("converting-assignment-from-temporary", dst3);
        Q1 movable = src;
        Q2 dst4 = make2(junk);
        dst4 = std::move(movable);
        check("converting-assignment-from-moved-object", dst4);
      }
      // ... and over a target that already compares equal to the converted source but is not the same numbers: every zero
      // with the opposite sign (an assignment that skips the store when `target == converted` keeps the old zeros)
      {
        T2 cur[9];
        vf::comps(dst, cur);
        bool any = false;
        for (int i = 0; i < N; i++)
          if (cur[i] == 0) {
            cur[i] = -cur[i];
            any = true;
          }
        if (any) {
          Q2 dst2 = make2(cur);
          dst2 = src;
          check("converting-assignment-over-equal-valued-target", dst2);
        }
      }
      vf::setadd("converting_members", std::string(name) + "|assign");
    }
    // widening followed by narrowing is the identity
    if constexpr ((std::numeric_limits<T1>::digits < std::numeric_limits<T2>::digits) && std::is_constructible_v<Q2, const Q1&> && std::is_constructible_v<Q1, const Q2&> && !dir) {
      const Q1 back{Q2(src)};
      T1 b[9];
      vf::comps(back, b);
      vf::stat("round_trips");
      for (int i = 0; i < N; i++)
        if (!vf::same_bits(b[i], s[i])) {
          vf::viol("precision|" + tag + "|widen-then-narrow-not-identity", "{\"source\":" + vf::comps_hex(src) + ",\"back\":" + vf::comps_hex(back) + "}");
          break;
        }
      if constexpr (Assignable<Q2, Q1>::value && Assignable<Q1, Q2>::value) {
        T2 junk[9] = {3, -5, 7, -11, 13, -17, 19, -23, 29};
        T1 junk1[9] = {3, -5, 7, -11, 13, -17, 19, -23, 29};
        Q2 w = make2(junk);
        w = src;
        Q1 n = make1(junk1);
        n = w;
        vf::comps(n, b);
        for (int i = 0; i < N; i++)
          if (!vf::same_bits(b[i], s[i])) {
            vf::viol("precision|" + tag + "|widen-then-narrow-by-assignment-not-identity", "{\"source\":" + vf::comps_hex(src) + ",\"back\":" + vf::comps_hex(n) + "}");
            break;
          }
      }
    }
  }
}
template <template <class> class Q>
void all_pairs(const char* name) {
  pair<Q, float, double>(name);
  pair<Q, float, long double>(name);
  pair<Q, double, float>(name);
  pair<Q, double, long double>(name);
  pair<Q, long double, float>(name);
  pair<Q, long double, double>(name);
  vf::stat("types");
}
#ifndef VF_C16_CORE
struct F {
  template <template <class> class Q>
  void operator()(const char* name) {
    all_pairs<Q>(name);
  }
};
int main() { vf::for_each_selq(F{}); }
#else
int main() {
  all_pairs<PhQ::PlanarVector>("PlanarVector");
  all_pairs<PhQ::Vector>("Vector");
  all_pairs<PhQ::SymmetricDyad>("SymmetricDyad");
  all_pairs<PhQ::Dyad>("Dyad");
  PhQ::Dyad<long double> d(1.0L / 3, 0.1L, -0.7L, 1, 2, 3, 4, 5, 6);
  vf::sample("{\"source\":\"Dyad<long double>(1/3, 0.1, -0.7, 1..6)\",\"as_float\":" + vf::comps_hex(PhQ::Dyad<float>(d)) + "}");
}
#endif
