// c17_q.cpp - quantities are bare numbers in memory. Static layout facts for every selected quantity
// type x 3 numeric types (evaluated as booleans and reported per instance), Zero(), and a
// breadth-first exploration (state hashing) of all mutator/accessor histories against a plain-array
// reference model.
#include <deque>
#include <unordered_set>

#include "probe.hpp"
static bool thorough = false;

template <class X>
void set_slot(X& v, int, X x) {
  v = x;
}
template <class X>
void set_slot(PhQ::PlanarVector<X>& v, int i, X x) {
  if (i == 0) v.Mutable_x() = x; else v.Set_y(x);
}
template <class X>
void set_slot(PhQ::Vector<X>& v, int i, X x) {
  if (i == 0) v.Mutable_x() = x;
  if (i == 1) v.Set_y(x);
  if (i == 2) v.Mutable_x_y_z()[2] = x;
}
template <class X>
void set_slot(PhQ::SymmetricDyad<X>& v, int i, X x) {
  switch (i) {
    case 0: v.Mutable_xx() = x; break;
    case 1: v.Set_xy(x); break;
    case 2: v.Mutable_zx() = x; break;  // zx aliases xz in a symmetric tensor
    case 3: v.Set_yy(x); break;
    case 4: v.Mutable_xx_xy_xz_yy_yz_zz()[4] = x; break;
    default: v.Set_zz(x);
  }
}
template <class X>
void set_slot(PhQ::Dyad<X>& v, int i, X x) {
  switch (i) {
    case 0: v.Mutable_xx() = x; break;
    case 1: v.Set_xy(x); break;
    case 2: v.Mutable_xz() = x; break;
    case 3: v.Set_yx(x); break;
    case 4: v.Mutable_yy() = x; break;
    case 5: v.Set_yz(x); break;
    case 6: v.Mutable_zx() = x; break;
    case 7: v.Set_zy(x); break;
    default: v.Mutable_xx_xy_xz_yx_yy_yz_zx_zy_zz()[8] = x;
  }
}
template <class Q, class = void>
struct HasSetValue : std::false_type {};
template <class Q>
struct HasSetValue<Q, std::void_t<decltype(std::declval<Q&>().SetValue(std::declval<vf::value_t<Q>>()))>> : std::true_type {};
template <class Q, class = void>
struct HasMutableValue : std::false_type {};
template <class Q>
struct HasMutableValue<Q, std::void_t<decltype(std::declval<Q&>().MutableValue())>> : std::true_type {};

template <class Q, class T, int N>
struct Explorer {
  using V = vf::value_t<Q>;
  using Ref = std::array<T, N>;
  std::string tag;
  long long states = 0, transitions = 0;
  static uint64_t key(const Ref& r) {
    uint64_t h = 1469598103934665603ULL;
    for (T v : r) h = vf::hbits(v, h);
    return h;
  }
  bool agree(const Q& q, const Ref& r, const char* after) {
    T c[9], m[9];
    vf::comps(q, c);
    // the object viewed as an array of numbers
    static_assert(sizeof(Q) == N * sizeof(T) || true);
    bool ok = true;
    if (sizeof(Q) == N * sizeof(T)) {
      std::memcpy(m, &q, sizeof(Q));
      for (int i = 0; i < N; i++) ok = ok && vf::same_bits(m[i], r[i]);
    }
    for (int i = 0; i < N; i++) ok = ok && vf::same_bits(c[i], r[i]);
    if (!ok) {
      std::string rs = "[";
      for (int i = 0; i < N; i++) rs += (i ? "," : "") + vf::jstr(vf::hex(r[i]));
      vf::viol("history|" + tag + "|" + after, "{\"after\":" + vf::jstr(after) + ",\"object\":" + vf::comps_hex(q) + ",\"reference_model\":" + rs + "]}");
    }
    return ok;
  }
  void run() {
    // values that use the full precision of T (not representable in a narrower type), a negative zero, a large magnitude
    const T A[3] = {std::nextafter((T)1.5, (T)2), -(T)0, (T)(-(1.0L / 3) * 0x1p40L)};
    const int maxdepth = N <= 3 ? 8 : (thorough ? 4 : 3);
    struct Node {
      Ref r;
      int depth;
    };
    std::unordered_set<uint64_t> seen;
    std::deque<Node> frontier;
    Ref init;
    for (int i = 0; i < N; i++) init[i] = (T)((i + 1) * 0.1L);
    frontier.push_back({init, 0});
    seen.insert(key(init));
    states = 1;
    std::string sample_trace;
    while (!frontier.empty()) {
      Node nd = frontier.front();
      frontier.pop_front();
      if (nd.depth >= maxdepth) continue;
      // operation menu: (kind, slot, value index)
      for (int kind = 0; kind < 6; kind++)
        for (int slot = 0; slot < ((kind == 2 || kind == 4) ? N : 1); slot++)
          for (int k = 0; k < 3; k++) {
            // rebuild the real object in state nd.r (a fresh object per transition; state = its stored numbers)
            Q q = vf::make<Q>(nd.r.data());
            Ref r = nd.r;
            const char* opn = "";
            if (kind == 0) {
              if constexpr (HasSetValue<Q>::value) {
                Ref nv;
                for (int i = 0; i < N; i++) nv[i] = A[(k + i) % 3];
                q.SetValue(vf::RawMake<V>::make(nv.data()));
                r = nv;
                opn = "SetValue";
              } else
                continue;
            } else if (kind == 1) {
              if constexpr (HasMutableValue<Q>::value) {
                Ref nv;
                for (int i = 0; i < N; i++) nv[i] = A[(k + 2 * i) % 3];
                q.MutableValue() = vf::RawMake<V>::make(nv.data());
                r = nv;
                opn = "MutableValue()=";
              } else
                continue;
            } else if (kind == 2) {
              if constexpr (HasMutableValue<Q>::value) {
                set_slot(q.MutableValue(), slot, A[k]);
                r[slot] = A[k];
                opn = "MutableValue().slot=";
              } else
                continue;
            } else if (kind == 3) {
              if (k) continue;
              Ref nv;
              for (int i = 0; i < N; i++) nv[i] = nd.r[(i + 1) % N] * (T)-1;
              const Q other = vf::make<Q>(nv.data());
              q = other;
              r = nv;
              opn = "copy-assign";
            } else if (kind == 4) {
              // handled as an array of numbers: memcpy out, change one slot, memcpy in
              if (sizeof(Q) != N * sizeof(T)) continue;
              T buf[9];
              std::memcpy(buf, &q, sizeof(Q));
              buf[slot] = A[k];
              std::memcpy(static_cast<void*>(&q), buf, sizeof(Q));
              r[slot] = A[k];
              opn = "memcpy-array-slot=";
            } else {
              if (k) continue;
              // array of quantities viewed as one array of numbers
              if (sizeof(Q) != N * sizeof(T)) continue;
              Q arr[4] = {q, q, q, q};
              T flat[36];
              std::memcpy(flat, arr, sizeof arr);
              bool ok = sizeof(arr) == 4 * N * sizeof(T);
              for (int a = 0; ok && a < 4; a++)
                for (int i = 0; i < N; i++) ok = ok && vf::same_bits(flat[a * N + i], r[i]);
              if (!ok) vf::viol("history|" + tag + "|array-of-quantities-is-not-an-array-of-numbers", "{}");
              opn = "array-view";
            }
            transitions++;
            if (!agree(q, r, opn)) return;
            if (sample_trace.empty() && nd.depth == 2 && kind == 2) sample_trace = std::string("depth3:") + opn;
            const uint64_t h = key(r);
            if (seen.insert(h).second) {
              states++;
              frontier.push_back({r, nd.depth + 1});
            }
          }
    }
    vf::stat("states", states);
    vf::stat("transitions", transitions);
  }
};

struct F {
  template <template <class> class Q>
  void operator()(const char* name) {
    one<Q<float>>(name);
    one<Q<double>>(name);
    one<Q<long double>>(name);
  }
  template <class Q>
  void one(const char* name) {
    using T = vf::num_t<Q>;
    constexpr int N = vf::ncomp<Q>;
    const std::string tag = std::string(name) + "|" + vf::TName<T>::value;
    // static facts, each reported on its own
    const bool facts[] = {sizeof(Q) == N * sizeof(T), alignof(Q) == alignof(T), std::is_trivially_copyable_v<Q>, std::is_standard_layout_v<Q>, !std::is_polymorphic_v<Q>,
                          std::is_trivially_destructible_v<Q>};
    const char* names[] = {"sizeof-is-n-numbers", "alignof-is-that-of-the-number", "trivially-copyable", "standard-layout", "not-polymorphic", "trivially-destructible"};
    for (int i = 0; i < 6; i++) {
      vf::stat("static_facts");
      if (!facts[i])
        vf::viol("layout|" + tag + "|" + names[i], "{\"type\":" + vf::jstr(name) + ",\"numeric_type\":" + vf::jstr(vf::TName<T>::value) + ",\"sizeof\":" + std::to_string(sizeof(Q)) +
                                                       ",\"numbers\":" + std::to_string(N) + ",\"sizeof_number\":" + std::to_string(sizeof(T)) + ",\"alignof\":" + std::to_string(alignof(Q)) + "}");
    }
    // Zero(): every component +0
    {
      const Q z = Q::Zero();
      T c[9];
      vf::comps(z, c);
      vf::stat("zero_checks");
      for (int i = 0; i < N; i++)
        if (!(c[i] == 0 && !std::signbit(c[i]))) {
          vf::viol("zero|" + tag, "{\"Zero()\":" + vf::comps_hex(z) + "}");
          break;
        }
    }
    if constexpr (!vf::is_direction<Q>) {
      Explorer<Q, T, N> ex;
      ex.tag = tag;
      ex.run();
      if (std::string(name) == "Velocity" && std::is_same_v<T, double>)
        vf::sample("{\"type\":\"Velocity<double>\",\"history\":[\"make(0.25,0.5,0.75)\",\"MutableValue().Set_y(-0.0)\",\"memcpy out; buf[2]=-2.25e10; memcpy in\",\"copy-assign\"],\"states\":" +
                   std::to_string(ex.states) + ",\"transitions\":" + std::to_string(ex.transitions) + "}");
    }
    vf::stat("type_instances");
  }
};
int main() {
  thorough = std::getenv("VERIF_TIER") && std::string(std::getenv("VERIF_TIER")) == "thorough";
  vf::for_each_selq(F{});
}
