// c17_q.cpp - quantities are bare numbers in memory. Static layout facts for every selected quantity
// type x 3 numeric types (evaluated as booleans and reported per instance), Zero(), and a
// breadth-first exploration (state hashing) of all mutator/accessor histories against a plain-array
// reference model.
#include <deque>
#include <unordered_set>

#include "probe.hpp"
static bool thorough = false;

// Every mutator of a stored value that writes ONE number: {name, slot it must write, call}. All of them are operations of the
// exploration (not one representative per slot).
template <class V, class X>
struct Writer {
  const char* name;
  int slot;
  void (*call)(V&, X);
};
#define W_(NAME, SLOT, EXPR) {NAME, SLOT, [](V& v, X x) { EXPR; }}
template <class X>
std::vector<Writer<X, X>> writers(const X*) {
  using V = X;
  return {W_("=", 0, v = x)};
}
template <class X>
std::vector<Writer<PhQ::PlanarVector<X>, X>> writers(const PhQ::PlanarVector<X>*) {
  using V = PhQ::PlanarVector<X>;
  return {W_("Mutable_x()=", 0, v.Mutable_x() = x), W_("Set_x", 0, v.Set_x(x)), W_("Mutable_x_y()[0]=", 0, v.Mutable_x_y()[0] = x),
          W_("Mutable_y()=", 1, v.Mutable_y() = x), W_("Set_y", 1, v.Set_y(x)), W_("Mutable_x_y()[1]=", 1, v.Mutable_x_y()[1] = x)};
}
template <class X>
std::vector<Writer<PhQ::Vector<X>, X>> writers(const PhQ::Vector<X>*) {
  using V = PhQ::Vector<X>;
  return {W_("Mutable_x()=", 0, v.Mutable_x() = x), W_("Set_x", 0, v.Set_x(x)), W_("Mutable_x_y_z()[0]=", 0, v.Mutable_x_y_z()[0] = x),
          W_("Mutable_y()=", 1, v.Mutable_y() = x), W_("Set_y", 1, v.Set_y(x)), W_("Mutable_x_y_z()[1]=", 1, v.Mutable_x_y_z()[1] = x),
          W_("Mutable_z()=", 2, v.Mutable_z() = x), W_("Set_z", 2, v.Set_z(x)), W_("Mutable_x_y_z()[2]=", 2, v.Mutable_x_y_z()[2] = x)};
}
template <class X>
std::vector<Writer<PhQ::SymmetricDyad<X>, X>> writers(const PhQ::SymmetricDyad<X>*) {
  using V = PhQ::SymmetricDyad<X>;
  // stored order xx xy xz yy yz zz; yx, zx, zy name the same numbers as xy, xz, yz
  return {W_("Mutable_xx()=", 0, v.Mutable_xx() = x), W_("Set_xx", 0, v.Set_xx(x)), W_("Mutable_xy()=", 1, v.Mutable_xy() = x), W_("Set_xy", 1, v.Set_xy(x)),
          W_("Mutable_yx()=", 1, v.Mutable_yx() = x), W_("Set_yx", 1, v.Set_yx(x)), W_("Mutable_xz()=", 2, v.Mutable_xz() = x), W_("Set_xz", 2, v.Set_xz(x)),
          W_("Mutable_zx()=", 2, v.Mutable_zx() = x), W_("Set_zx", 2, v.Set_zx(x)), W_("Mutable_yy()=", 3, v.Mutable_yy() = x), W_("Set_yy", 3, v.Set_yy(x)),
          W_("Mutable_yz()=", 4, v.Mutable_yz() = x), W_("Set_yz", 4, v.Set_yz(x)), W_("Mutable_zy()=", 4, v.Mutable_zy() = x), W_("Set_zy", 4, v.Set_zy(x)),
          W_("Mutable_zz()=", 5, v.Mutable_zz() = x), W_("Set_zz", 5, v.Set_zz(x)),
          W_("Mutable_xx_xy_xz_yy_yz_zz()[0]=", 0, v.Mutable_xx_xy_xz_yy_yz_zz()[0] = x), W_("Mutable_xx_xy_xz_yy_yz_zz()[1]=", 1, v.Mutable_xx_xy_xz_yy_yz_zz()[1] = x),
          W_("Mutable_xx_xy_xz_yy_yz_zz()[2]=", 2, v.Mutable_xx_xy_xz_yy_yz_zz()[2] = x), W_("Mutable_xx_xy_xz_yy_yz_zz()[3]=", 3, v.Mutable_xx_xy_xz_yy_yz_zz()[3] = x),
          W_("Mutable_xx_xy_xz_yy_yz_zz()[4]=", 4, v.Mutable_xx_xy_xz_yy_yz_zz()[4] = x), W_("Mutable_xx_xy_xz_yy_yz_zz()[5]=", 5, v.Mutable_xx_xy_xz_yy_yz_zz()[5] = x)};
}
template <class X>
std::vector<Writer<PhQ::Dyad<X>, X>> writers(const PhQ::Dyad<X>*) {
  using V = PhQ::Dyad<X>;
  return {W_("Mutable_xx()=", 0, v.Mutable_xx() = x), W_("Set_xx", 0, v.Set_xx(x)), W_("Mutable_xy()=", 1, v.Mutable_xy() = x), W_("Set_xy", 1, v.Set_xy(x)),
          W_("Mutable_xz()=", 2, v.Mutable_xz() = x), W_("Set_xz", 2, v.Set_xz(x)), W_("Mutable_yx()=", 3, v.Mutable_yx() = x), W_("Set_yx", 3, v.Set_yx(x)),
          W_("Mutable_yy()=", 4, v.Mutable_yy() = x), W_("Set_yy", 4, v.Set_yy(x)), W_("Mutable_yz()=", 5, v.Mutable_yz() = x), W_("Set_yz", 5, v.Set_yz(x)),
          W_("Mutable_zx()=", 6, v.Mutable_zx() = x), W_("Set_zx", 6, v.Set_zx(x)), W_("Mutable_zy()=", 7, v.Mutable_zy() = x), W_("Set_zy", 7, v.Set_zy(x)),
          W_("Mutable_zz()=", 8, v.Mutable_zz() = x), W_("Set_zz", 8, v.Set_zz(x)),
          W_("Mutable_xx_xy_xz_yx_yy_yz_zx_zy_zz()[0]=", 0, v.Mutable_xx_xy_xz_yx_yy_yz_zx_zy_zz()[0] = x), W_("Mutable_xx_xy_xz_yx_yy_yz_zx_zy_zz()[1]=", 1, v.Mutable_xx_xy_xz_yx_yy_yz_zx_zy_zz()[1] = x),
          W_("Mutable_xx_xy_xz_yx_yy_yz_zx_zy_zz()[2]=", 2, v.Mutable_xx_xy_xz_yx_yy_yz_zx_zy_zz()[2] = x), W_("Mutable_xx_xy_xz_yx_yy_yz_zx_zy_zz()[3]=", 3, v.Mutable_xx_xy_xz_yx_yy_yz_zx_zy_zz()[3] = x),
          W_("Mutable_xx_xy_xz_yx_yy_yz_zx_zy_zz()[4]=", 4, v.Mutable_xx_xy_xz_yx_yy_yz_zx_zy_zz()[4] = x), W_("Mutable_xx_xy_xz_yx_yy_yz_zx_zy_zz()[5]=", 5, v.Mutable_xx_xy_xz_yx_yy_yz_zx_zy_zz()[5] = x),
          W_("Mutable_xx_xy_xz_yx_yy_yz_zx_zy_zz()[6]=", 6, v.Mutable_xx_xy_xz_yx_yy_yz_zx_zy_zz()[6] = x), W_("Mutable_xx_xy_xz_yx_yy_yz_zx_zy_zz()[7]=", 7, v.Mutable_xx_xy_xz_yx_yy_yz_zx_zy_zz()[7] = x),
          W_("Mutable_xx_xy_xz_yx_yy_yz_zx_zy_zz()[8]=", 8, v.Mutable_xx_xy_xz_yx_yy_yz_zx_zy_zz()[8] = x)};
}
// Whole-value setters fed with references into the object's own storage, in a permuted order (an in-place transpose, a cyclic
// shift): the object must end up holding the permuted numbers. perm[i] = index of the old number that slot i receives.
template <class X>
bool permute_in_place(X&, int, const int**, const char**) {
  return false;
}
template <class X>
bool permute_in_place(PhQ::PlanarVector<X>& v, int variant, const int** perm, const char** name) {
  static const int p[2] = {1, 0};
  *perm = p;
  if (variant == 0) {
    auto& a = v.Mutable_x_y();
    v.Set_x_y(a[1], a[0]);
    *name = "Set_x_y(own y, own x) by reference";
    return true;
  }
  if (variant == 1) {
    const auto& a = v.x_y();
    v.Set_x_y(a[1], a[0]);
    *name = "Set_x_y(x_y()[1], x_y()[0])";
    return true;
  }
  return false;
}
template <class X>
bool permute_in_place(PhQ::Vector<X>& v, int variant, const int** perm, const char** name) {
  static const int p[3] = {1, 2, 0};
  *perm = p;
  if (variant == 0) {
    auto& a = v.Mutable_x_y_z();
    v.Set_x_y_z(a[1], a[2], a[0]);
    *name = "Set_x_y_z(own y, own z, own x) by reference";
    return true;
  }
  if (variant == 1) {
    const auto& a = v.x_y_z();
    v.Set_x_y_z(a[1], a[2], a[0]);
    *name = "Set_x_y_z(x_y_z()[1], [2], [0])";
    return true;
  }
  return false;
}
template <class X>
bool permute_in_place(PhQ::SymmetricDyad<X>& v, int variant, const int** perm, const char** name) {
  static const int p[6] = {5, 4, 3, 2, 1, 0};
  *perm = p;
  if (variant == 0) {
    auto& a = v.Mutable_xx_xy_xz_yy_yz_zz();
    v.Set_xx_xy_xz_yy_yz_zz(a[5], a[4], a[3], a[2], a[1], a[0]);
    *name = "Set_xx_xy_xz_yy_yz_zz(own numbers reversed) by reference";
    return true;
  }
  if (variant == 1) {
    const auto& a = v.xx_xy_xz_yy_yz_zz();
    v.Set_xx_xy_xz_yy_yz_zz(a[5], a[4], a[3], a[2], a[1], a[0]);
    *name = "Set_xx_xy_xz_yy_yz_zz(xx_xy_xz_yy_yz_zz() reversed)";
    return true;
  }
  return false;
}
template <class X>
bool permute_in_place(PhQ::Dyad<X>& v, int variant, const int** perm, const char** name) {
  static const int p[9] = {0, 3, 6, 1, 4, 7, 2, 5, 8};
  *perm = p;
  if (variant == 0) {
    auto& a = v.Mutable_xx_xy_xz_yx_yy_yz_zx_zy_zz();
    v.Set_xx_xy_xz_yx_yy_yz_zx_zy_zz(a[0], a[3], a[6], a[1], a[4], a[7], a[2], a[5], a[8]);
    *name = "in-place transpose through Set_xx_xy_xz_yx_yy_yz_zx_zy_zz(references)";
    return true;
  }
  if (variant == 1) {
    const auto& a = v.xx_xy_xz_yx_yy_yz_zx_zy_zz();
    v.Set_xx_xy_xz_yx_yy_yz_zx_zy_zz(a[0], a[3], a[6], a[1], a[4], a[7], a[2], a[5], a[8]);
    *name = "in-place transpose through Set_xx_xy_xz_yx_yy_yz_zx_zy_zz(const references)";
    return true;
  }
  return false;
}
// Whole-value setters with fresh numbers: scalars and array forms.
template <class X>
bool set_all(X&, int, const X*, const char**) {
  return false;
}
template <class X>
bool set_all(PhQ::PlanarVector<X>& v, int variant, const X* n, const char** name) {
  if (variant == 0) return v.Set_x_y(n[0], n[1]), *name = "Set_x_y(x, y)", true;
  if (variant == 1) return v.Set_x_y(std::array<X, 2>{n[0], n[1]}), *name = "Set_x_y(array)", true;
  return false;
}
template <class X>
bool set_all(PhQ::Vector<X>& v, int variant, const X* n, const char** name) {
  if (variant == 0) return v.Set_x_y_z(n[0], n[1], n[2]), *name = "Set_x_y_z(x, y, z)", true;
  if (variant == 1) return v.Set_x_y_z(std::array<X, 3>{n[0], n[1], n[2]}), *name = "Set_x_y_z(array)", true;
  return false;
}
template <class X>
bool set_all(PhQ::SymmetricDyad<X>& v, int variant, const X* n, const char** name) {
  if (variant == 0) return v.Set_xx_xy_xz_yy_yz_zz(n[0], n[1], n[2], n[3], n[4], n[5]), *name = "Set_xx_xy_xz_yy_yz_zz(6 numbers)", true;
  if (variant == 1) return v.Set_xx_xy_xz_yy_yz_zz(std::array<X, 6>{n[0], n[1], n[2], n[3], n[4], n[5]}), *name = "Set_xx_xy_xz_yy_yz_zz(array)", true;
  return false;
}
template <class X>
bool set_all(PhQ::Dyad<X>& v, int variant, const X* n, const char** name) {
  if (variant == 0) return v.Set_xx_xy_xz_yx_yy_yz_zx_zy_zz(n[0], n[1], n[2], n[3], n[4], n[5], n[6], n[7], n[8]), *name = "Set_xx_xy_xz_yx_yy_yz_zx_zy_zz(9 numbers)", true;
  if (variant == 1)
    return v.Set_xx_xy_xz_yx_yy_yz_zx_zy_zz(std::array<X, 9>{n[0], n[1], n[2], n[3], n[4], n[5], n[6], n[7], n[8]}), *name = "Set_xx_xy_xz_yx_yy_yz_zx_zy_zz(array)", true;
  return false;
}
// Every accessor that reads ONE number of a stored vector/tensor: {name, slot it must read, call}.
template <class V, class X>
struct Reader {
  const char* name;
  int slot;
  X (*call)(const V&);
};
#define R_(NAME, SLOT, EXPR) {NAME, SLOT, [](const V& v) -> X { return EXPR; }}
template <class X>
std::vector<Reader<X, X>> readers(const X*) {
  using V = X;
  return {R_("value", 0, v)};
}
template <class X>
std::vector<Reader<PhQ::PlanarVector<X>, X>> readers(const PhQ::PlanarVector<X>*) {
  using V = PhQ::PlanarVector<X>;
  return {R_("x()", 0, v.x()), R_("y()", 1, v.y()), R_("x_y()[0]", 0, v.x_y()[0]), R_("x_y()[1]", 1, v.x_y()[1])};
}
template <class X>
std::vector<Reader<PhQ::Vector<X>, X>> readers(const PhQ::Vector<X>*) {
  using V = PhQ::Vector<X>;
  return {R_("x()", 0, v.x()), R_("y()", 1, v.y()), R_("z()", 2, v.z()), R_("x_y_z()[0]", 0, v.x_y_z()[0]), R_("x_y_z()[1]", 1, v.x_y_z()[1]), R_("x_y_z()[2]", 2, v.x_y_z()[2])};
}
template <class X>
std::vector<Reader<PhQ::SymmetricDyad<X>, X>> readers(const PhQ::SymmetricDyad<X>*) {
  using V = PhQ::SymmetricDyad<X>;
  return {R_("xx()", 0, v.xx()), R_("xy()", 1, v.xy()), R_("xz()", 2, v.xz()), R_("yx()", 1, v.yx()), R_("yy()", 3, v.yy()), R_("yz()", 4, v.yz()),
          R_("zx()", 2, v.zx()), R_("zy()", 4, v.zy()), R_("zz()", 5, v.zz()),
          R_("xx_xy_xz_yy_yz_zz()[0]", 0, v.xx_xy_xz_yy_yz_zz()[0]), R_("xx_xy_xz_yy_yz_zz()[1]", 1, v.xx_xy_xz_yy_yz_zz()[1]), R_("xx_xy_xz_yy_yz_zz()[2]", 2, v.xx_xy_xz_yy_yz_zz()[2]),
          R_("xx_xy_xz_yy_yz_zz()[3]", 3, v.xx_xy_xz_yy_yz_zz()[3]), R_("xx_xy_xz_yy_yz_zz()[4]", 4, v.xx_xy_xz_yy_yz_zz()[4]), R_("xx_xy_xz_yy_yz_zz()[5]", 5, v.xx_xy_xz_yy_yz_zz()[5])};
}
template <class X>
std::vector<Reader<PhQ::Dyad<X>, X>> readers(const PhQ::Dyad<X>*) {
  using V = PhQ::Dyad<X>;
  return {R_("xx()", 0, v.xx()), R_("xy()", 1, v.xy()), R_("xz()", 2, v.xz()), R_("yx()", 3, v.yx()), R_("yy()", 4, v.yy()), R_("yz()", 5, v.yz()),
          R_("zx()", 6, v.zx()), R_("zy()", 7, v.zy()), R_("zz()", 8, v.zz()),
          R_("array[0]", 0, v.xx_xy_xz_yx_yy_yz_zx_zy_zz()[0]), R_("array[1]", 1, v.xx_xy_xz_yx_yy_yz_zx_zy_zz()[1]), R_("array[2]", 2, v.xx_xy_xz_yx_yy_yz_zx_zy_zz()[2]),
          R_("array[3]", 3, v.xx_xy_xz_yx_yy_yz_zx_zy_zz()[3]), R_("array[4]", 4, v.xx_xy_xz_yx_yy_yz_zx_zy_zz()[4]), R_("array[5]", 5, v.xx_xy_xz_yx_yy_yz_zx_zy_zz()[5]),
          R_("array[6]", 6, v.xx_xy_xz_yx_yy_yz_zx_zy_zz()[6]), R_("array[7]", 7, v.xx_xy_xz_yx_yy_yz_zx_zy_zz()[7]), R_("array[8]", 8, v.xx_xy_xz_yx_yy_yz_zx_zy_zz()[8])};
}
// The typed component accessors of a quantity (q.x() -> scalar quantity, q.yz() -> scalar quantity), probed by name.
#define TYPED_(NAME)                                                                                                   \
  template <class Q, class = void>                                                                                     \
  struct Has_##NAME : std::false_type {};                                                                              \
  template <class Q>                                                                                                   \
  struct Has_##NAME<Q, std::void_t<decltype(std::declval<const Q&>().NAME().Value())>> : std::true_type {};            \
  template <class Q, class T>                                                                                          \
  bool typed_##NAME(const Q& q, T want) {                                                                              \
    if constexpr (Has_##NAME<Q>::value) {                                                                              \
      if constexpr (std::is_same_v<std::decay_t<decltype(q.NAME().Value())>, T>) return vf::same_bits(q.NAME().Value(), want); \
    }                                                                                                                  \
    return true;                                                                                                       \
  }
TYPED_(x) TYPED_(y) TYPED_(z) TYPED_(xx) TYPED_(xy) TYPED_(xz) TYPED_(yx) TYPED_(yy) TYPED_(yz) TYPED_(zx) TYPED_(zy) TYPED_(zz)
template <class Q, class = void>
struct HasSetValue : std::false_type {};
template <class Q>
struct HasSetValue<Q, std::void_t<decltype(std::declval<Q&>().SetValue(std::declval<vf::value_t<Q>>()))>> : std::true_type {};
template <class Q, class = void>
struct HasMutableValue : std::false_type {};
template <class Q>
struct HasMutableValue<Q, std::void_t<decltype(std::declval<Q&>().MutableValue())>> : std::true_type {};

template <class Q, class T, int N>
struct Explorer {
  using V = vf::value_t<Q>;
  using Ref = std::array<T, N>;
  std::string tag;
  long long states = 0, transitions = 0;
  static uint64_t key(const Ref& r) {
    uint64_t h = 1469598103934665603ULL;
    for (T v : r) h = vf::hbits(v, h);
    return h;
  }
  bool agree(const Q& q, const Ref& r, const char* after) {
    T c[9], m[9];
    vf::comps(q, c);
    // the object viewed as an array of numbers
    static_assert(sizeof(Q) == N * sizeof(T) || true);
    bool ok = true;
    if (sizeof(Q) == N * sizeof(T)) {
      std::memcpy(m, &q, sizeof(Q));
      for (int i = 0; i < N; i++) ok = ok && vf::same_bits(m[i], r[i]);
    }
    for (int i = 0; i < N; i++) ok = ok && vf::same_bits(c[i], r[i]);
    // ... through every one-number accessor of the stored value, and through the quantity's typed component accessors
    const char* bad_reader = nullptr;
    if constexpr (vf::HasUnit<Q>::value || HasMutableValue<Q>::value) {
      static const auto rs = readers((const V*)nullptr);
      const V& v = q.Value();
      for (const auto& rd : rs)
        if (!vf::same_bits(rd.call(v), r[rd.slot]) && !bad_reader) bad_reader = rd.name;
      if constexpr (N == 2 || N == 3) {
        if (!typed_x(q, r[0])) bad_reader = "typed x()";
        if (!typed_y(q, r[1])) bad_reader = "typed y()";
        if constexpr (N == 3)
          if (!typed_z(q, r[2])) bad_reader = "typed z()";
      } else if constexpr (N == 6) {
        if (!typed_xx(q, r[0])) bad_reader = "typed xx()";
        if (!typed_xy(q, r[1]) || !typed_yx(q, r[1])) bad_reader = "typed xy()/yx()";
        if (!typed_xz(q, r[2]) || !typed_zx(q, r[2])) bad_reader = "typed xz()/zx()";
        if (!typed_yy(q, r[3])) bad_reader = "typed yy()";
        if (!typed_yz(q, r[4]) || !typed_zy(q, r[4])) bad_reader = "typed yz()/zy()";
        if (!typed_zz(q, r[5])) bad_reader = "typed zz()";
      } else if constexpr (N == 9) {
        if (!typed_xx(q, r[0]) || !typed_xy(q, r[1]) || !typed_xz(q, r[2])) bad_reader = "typed xx()/xy()/xz()";
        if (!typed_yx(q, r[3]) || !typed_yy(q, r[4]) || !typed_yz(q, r[5])) bad_reader = "typed yx()/yy()/yz()";
        if (!typed_zx(q, r[6]) || !typed_zy(q, r[7]) || !typed_zz(q, r[8])) bad_reader = "typed zx()/zy()/zz()";
      }
    }
    if (bad_reader) {
      ok = false;
      vf::viol("accessor|" + tag + "|" + bad_reader, "{\"accessor\":" + vf::jstr(bad_reader) + ",\"after\":" + vf::jstr(after) + ",\"object\":" + vf::comps_hex(q) + "}");
      return false;
    }
    if (!ok) {
      std::string rs = "[";
      for (int i = 0; i < N; i++) rs += (i ? "," : "") + vf::jstr(vf::hex(r[i]));
      vf::viol("history|" + tag + "|" + after, "{\"after\":" + vf::jstr(after) + ",\"object\":" + vf::comps_hex(q) + ",\"reference_model\":" + rs + "]}");
    }
    return ok;
  }
  void run() {
    // values that use the full precision of T (not representable in a narrower type), a negative zero, a large magnitude
    const T A[3] = {std::nextafter((T)1.5, (T)2), -(T)0, (T)(-(1.0L / 3) * 0x1p40L)};
    const int maxdepth = N <= 3 ? 8 : (thorough ? 4 : 3);
    struct Node {
      Ref r;
      int depth;
    };
    std::unordered_set<uint64_t> seen;
    std::deque<Node> frontier;
    Ref init;
    for (int i = 0; i < N; i++) init[i] = (T)((i + 1) * 0.1L);
    frontier.push_back({init, 0});
    seen.insert(key(init));
    states = 1;
    std::string sample_trace;
    while (!frontier.empty()) {
      Node nd = frontier.front();
      frontier.pop_front();
      if (nd.depth >= maxdepth) continue;
      // operation menu: (kind, slot, value index)
      static const auto ws = writers((const V*)nullptr);
      for (int kind = 0; kind < 8; kind++)
        for (int slot = 0; slot < (kind == 2 ? (int)ws.size() : kind == 4 ? N : (kind == 6 || kind == 7) ? 2 : 1); slot++)
          for (int k = 0; k < 3; k++) {
            // rebuild the real object in state nd.r (a fresh object per transition; state = its stored numbers)
            Q q = vf::make<Q>(nd.r.data());
            Ref r = nd.r;
            const char* opn = "";
            if (kind == 0) {
              if constexpr (HasSetValue<Q>::value) {
                Ref nv;
                for (int i = 0; i < N; i++) nv[i] = A[(k + i) % 3];
                q.SetValue(vf::RawMake<V>::make(nv.data()));
                r = nv;
                opn = "SetValue";
              } else
                continue;
            } else if (kind == 1) {
              if constexpr (HasMutableValue<Q>::value) {
                Ref nv;
                for (int i = 0; i < N; i++) nv[i] = A[(k + 2 * i) % 3];
                q.MutableValue() = vf::RawMake<V>::make(nv.data());
                r = nv;
                opn = "MutableValue()=";
              } else
                continue;
            } else if (kind == 2) {
              if constexpr (HasMutableValue<Q>::value) {
                ws[slot].call(q.MutableValue(), A[k]);
                r[ws[slot].slot] = A[k];
                opn = ws[slot].name;
              } else
                continue;
            } else if (kind == 3) {
              if (k) continue;
              Ref nv;
              for (int i = 0; i < N; i++) nv[i] = nd.r[(i + 1) % N] * (T)-1;
              const Q other = vf::make<Q>(nv.data());
              q = other;
              r = nv;
              opn = "copy-assign";
            } else if (kind == 4) {
              // handled as an array of numbers: memcpy out, change one slot, memcpy in
              if (sizeof(Q) != N * sizeof(T)) continue;
              T buf[9];
              std::memcpy(buf, &q, sizeof(Q));
              buf[slot] = A[k];
              std::memcpy(static_cast<void*>(&q), buf, sizeof(Q));
              r[slot] = A[k];
              opn = "memcpy-array-slot=";
            } else if (kind == 6) {
              // whole-value setter of the stored value fed with references into the object itself, permuted
              if (k) continue;
              if constexpr (HasMutableValue<Q>::value) {
                const int* perm = nullptr;
                if (!permute_in_place(q.MutableValue(), slot, &perm, &opn)) continue;
                for (int i = 0; i < N; i++) r[i] = nd.r[perm[i]];
              } else
                continue;
            } else if (kind == 7) {
              if constexpr (HasMutableValue<Q>::value) {
                Ref nv;
                for (int i = 0; i < N; i++) nv[i] = A[(k + i + (i / 3)) % 3];
                if (!set_all(q.MutableValue(), slot, nv.data(), &opn)) continue;
                r = nv;
              } else
                continue;
            } else {
              if (k) continue;
              // array of quantities viewed as one array of numbers
              if (sizeof(Q) != N * sizeof(T)) continue;
              Q arr[4] = {q, q, q, q};
              T flat[36];
              std::memcpy(flat, arr, sizeof arr);
              bool ok = sizeof(arr) == 4 * N * sizeof(T);
              for (int a = 0; ok && a < 4; a++)
                for (int i = 0; i < N; i++) ok = ok && vf::same_bits(flat[a * N + i], r[i]);
              if (!ok) vf::viol("history|" + tag + "|array-of-quantities-is-not-an-array-of-numbers", "{}");
              opn = "array-view";
            }
            transitions++;
            if (!agree(q, r, opn)) return;
            if (sample_trace.empty() && nd.depth == 2 && kind == 2) sample_trace = std::string("depth3:") + opn;
            const uint64_t h = key(r);
            if (seen.insert(h).second) {
              states++;
              frontier.push_back({r, nd.depth + 1});
            }
          }
    }
    vf::stat("states", states);
    vf::stat("transitions", transitions);
  }
};

struct F {
  template <template <class> class Q>
  void operator()(const char* name) {
    one<Q<float>>(name);
    one<Q<double>>(name);
    one<Q<long double>>(name);
  }
  template <class Q>
  void one(const char* name) {
    using T = vf::num_t<Q>;
    constexpr int N = vf::ncomp<Q>;
    const std::string tag = std::string(name) + "|" + vf::TName<T>::value;
    // static facts, each reported on its own
    const bool facts[] = {sizeof(Q) == N * sizeof(T), alignof(Q) == alignof(T), std::is_trivially_copyable_v<Q>, std::is_standard_layout_v<Q>, !std::is_polymorphic_v<Q>,
                          std::is_trivially_destructible_v<Q>};
    const char* names[] = {"sizeof-is-n-numbers", "alignof-is-that-of-the-number", "trivially-copyable", "standard-layout", "not-polymorphic", "trivially-destructible"};
    for (int i = 0; i < 6; i++) {
      vf::stat("static_facts");
      if (!facts[i])
        vf::viol("layout|" + tag + "|" + names[i], "{\"type\":" + vf::jstr(name) + ",\"numeric_type\":" + vf::jstr(vf::TName<T>::value) + ",\"sizeof\":" + std::to_string(sizeof(Q)) +
                                                       ",\"numbers\":" + std::to_string(N) + ",\"sizeof_number\":" + std::to_string(sizeof(T)) + ",\"alignof\":" + std::to_string(alignof(Q)) + "}");
    }
    // Zero(): every component +0
    {
      const Q z = Q::Zero();
      T c[9];
      vf::comps(z, c);
      vf::stat("zero_checks");
      for (int i = 0; i < N; i++)
        if (!(c[i] == 0 && !std::signbit(c[i]))) {
          vf::viol("zero|" + tag, "{\"Zero()\":" + vf::comps_hex(z) + "}");
          break;
        }
    }
    if constexpr (!vf::is_direction<Q>) {
      Explorer<Q, T, N> ex;
      ex.tag = tag;
      ex.run();
      if (std::string(name) == "Velocity" && std::is_same_v<T, double>)
        vf::sample("{\"type\":\"Velocity<double>\",\"history\":[\"make(0.25,0.5,0.75)\",\"MutableValue().Set_y(-0.0)\",\"memcpy out; buf[2]=-2.25e10; memcpy in\",\"copy-assign\"],\"states\":" +
                   std::to_string(ex.states) + ",\"transitions\":" + std::to_string(ex.transitions) + "}");
    }
    vf::stat("type_instances");
  }
};
int main() {
  thorough = std::getenv("VERIF_TIER") && std::string(std::getenv("VERIF_TIER")) == "thorough";
  vf::for_each_selq(F{});
}
