// c18.cpp - named physical definitions evaluate their textbook formulas (dimensionless constants
// included), in every direction the tree offers. Fixed table of rows; each row is guarded by a
// compile-time existence probe, calls the real types and is compared with a __float128 reference.
// Included after all quantity headers. usage: c18 <float|double|longdouble>
#include "rel_check.hpp"

using namespace PhQ;
using vf::f128;
static bool thorough = false;

template <class Q>
Q S(vf::num_t<Q> x) {
  return rel::rebuild<Q>(&x);
}
template <class X>
using Ex = vf::Exactly<X>;

#define C18_HAS(NAME, EXPR)                                                                  \
  template <class Q, class = void>                                                             \
  struct NAME : std::false_type {};                                                            \
  template <class Q>                                                                           \
  struct NAME<Q, std::void_t<decltype(std::declval<const Q&>().EXPR)>> : std::true_type {};
C18_HAS(HasPeriod, Period())
C18_HAS(HasFrequencyM, Frequency())
C18_HAS(HasStressM, Stress())
C18_HAS(HasStrainM, Strain())
C18_HAS(HasStrainRateM, StrainRate())
C18_HAS(HasVonMises, VonMises())
template <class A, class B, class = void>
struct HasTimes : std::false_type {};
template <class A, class B>
struct HasTimes<A, B, std::void_t<decltype(std::declval<const A&>() * std::declval<const B&>())>> : std::true_type {};
template <class Q, class N, class = void>
struct HasTractionM : std::false_type {};
template <class Q, class N>
struct HasTractionM<Q, N, std::void_t<decltype(std::declval<const Q&>().Traction(std::declval<const N&>()))>> : std::true_type {};
template <class Q, class N, class = void>
struct HasPlanarTractionM : std::false_type {};
template <class Q, class N>
struct HasPlanarTractionM<Q, N, std::void_t<decltype(std::declval<const Q&>().PlanarTraction(std::declval<const N&>()))>> : std::true_type {};

// NIN scalar inputs (positive magnitudes, pairwise different), NOUT outputs
template <class T, int NIN, int NOUT, class Prep, class Call, class Ref>
void formula(const char* name, Prep prep, Call call, Ref ref) {
  const std::vector<int> es = std::is_same_v<T, float> ? std::vector<int>{-20, -12, -1, 0, 3, 17, 20} : std::vector<int>{-40, -12, -1, 0, 3, 17, 40};
  const long double ms[3] = {1.0L, 1.375L, 1.9L};
  std::vector<T> grid;
  for (int e : es)
    for (long double m : ms) grid.push_back((T)std::ldexp(m * (1.0L + 1.0L / 3072.0L), e));
  const int G = (int)grid.size();
  // argument tuples: all combinations for up to two inputs; for more, every argument sweeps the whole grid while the
  // others move with co-prime strides (so all arguments are pairwise different in magnitude most of the time)
  std::vector<std::array<int, 12>> tuples;
  if (NIN <= 2) {
    for (int i = 0; i < G; i++)
      for (int j = 0; j < (NIN == 2 ? G : 1); j++) tuples.push_back({i, j});
  } else {
    const int strides[12] = {1, 5, 11, 13, 17, 19, 2, 4, 8, 10, 16, 20};
    const int reps = thorough ? 21 : 5;
    for (int lead = 0; lead < NIN; lead++)
      for (int k = 0; k < G; k++)
        for (int off = 0; off < reps; off++) {
          std::array<int, 12> t{};
          for (int a = 0; a < NIN; a++) t[a] = (a == lead) ? k : (k * strides[a] + off * 3 + a * 7) % G;
          tuples.push_back(t);
        }
  }
  double worst = 0;
  const std::string key = std::string("definition|") + name + "|" + vf::TName<T>::value;
  for (const auto& tp : tuples) {
    T g[12], in[12];
    for (int a = 0; a < NIN; a++) g[a] = grid[tp[a]];
    prep(g, in);
    T out[9];
    call(in, out);
    f128 x[12], want[9];
    for (int a = 0; a < NIN; a++) x[a] = in[a];
    ref(x, want);
    bool usable = true;
    for (int j = 0; j < NOUT; j++)
      if (!std::isfinite(out[j]) || isnanq(want[j]) || isinfq(want[j]) || (want[j] != 0 && fabsq(want[j]) < (f128)std::numeric_limits<T>::min() * 4) ||
          fabsq(want[j]) > (f128)std::numeric_limits<T>::max() / 4)
        usable = false;
    if (!usable) {
      vf::stat("skipped_out_of_range");
      continue;
    }
    // accepted error: 8 ulp of the result ("a few ulps": the inputs are exact numbers, a definition of a handful of operations
    // evaluated sensibly stays within that whatever the conditioning - a difference of two inputs is exactly rounded, x - 1 is
    // exact next to one). VERIF_C18_INPUT_MOVES=1 adds the image of +-1,+-2,+-4 ulp moves of each input (the older, laxer rule).
    f128 tol[9], wmax = 0;
    for (int j = 0; j < NOUT; j++) wmax = fmaxq(wmax, fabsq(want[j]));
    for (int j = 0; j < NOUT; j++) tol[j] = 8 * vf::ulp_at<T>(NOUT > 1 ? wmax : want[j]);
    static const bool input_moves = std::getenv("VERIF_C18_INPUT_MOVES") != nullptr;
    for (int a = 0; a < NIN && input_moves; a++) {
      f128 worstj[9] = {0, 0, 0, 0, 0, 0, 0, 0, 0};
      for (int d : {-4, -2, -1, 1, 2, 4}) {
        f128 y[12], w2[9];
        for (int b = 0; b < NIN; b++) y[b] = x[b];
        y[a] = vf::step(in[a], d);
        ref(y, w2);
        for (int j = 0; j < NOUT; j++)
          if (!isnanq(w2[j])) worstj[j] = fmaxq(worstj[j], fabsq(w2[j] - want[j]));
      }
      for (int j = 0; j < NOUT; j++) tol[j] = fmaxq(tol[j], worstj[j]);
    }
    vf::stat("evaluations");
    for (int j = 0; j < NOUT; j++) {
      const double r = (double)(fabsq((f128)out[j] - want[j]) / tol[j]);
      if (r > worst) worst = r;
      if (!(r <= 1.0)) {
        std::string ins = "[";
        for (int a = 0; a < NIN; a++) ins += (a ? "," : "") + vf::jstr(vf::hex(in[a]));
        vf::viol(key, std::string("{\"definition\":") + vf::jstr(name) + ",\"numeric_type\":" + vf::jstr(vf::TName<T>::value) + ",\"inputs\":" + ins + "],\"output_index\":" + std::to_string(j) +
                          ",\"observed\":" + vf::jstr(vf::hex(out[j])) + ",\"textbook\":" + vf::jstr(vf::hexq(want[j])) + ",\"error_over_tolerance\":" + std::to_string(r) + "}");
        return;
      }
    }
  }
  vf::maxf(std::string("max_error_over_tolerance_") + vf::TName<T>::value, worst);
  vf::stat("definitions_checked");
  vf::setadd("rows_present", name);
}
// a heat-capacity ratio made from a grid value: in (1.45, 1.9] for the values with an even binary exponent, between 1.007 and
// 1.014 for the others (gamma - 1 and 1 - 1/gamma cancel there: a definition evaluated sensibly still holds to a few ulps)
template <class T>
T gamma_from(T v) {
  int e;
  T f = std::frexp(v, &e);
  if (e & 1) f = std::ldexp(f, -6);
  return (T)1 + f * (T)0.9;
}
#define ID [](const T* g, T* in) { for (int i = 0; i < 12; i++) in[i] = g[i]; }
#define ROW(NAME, NIN, NOUT, EXISTS, PREP, CALL, REF)                                                    \
  if constexpr (EXISTS) {                                                                                 \
    formula<T, NIN, NOUT>(NAME, PREP, [](const T* x, T* o) CALL, [](const f128* x, f128* o) REF);        \
  } else {                                                                                                \
    vf::setadd("rows_absent", NAME);                                                                      \
  }
#define CT(...) std::is_constructible_v<__VA_ARGS__>

template <class T>
void table() {
  using MD = MassDensity<T>;
  using SP = Speed<T>;
  using DP = DynamicPressure<T>;
  using DKP = DynamicKinematicPressure<T>;
  using SPr = StaticPressure<T>;
  using TP = TotalPressure<T>;
  using SKP = StaticKinematicPressure<T>;
  using TKP = TotalKinematicPressure<T>;
  using SS = SoundSpeed<T>;
  using KB = IsentropicBulkModulus<T>;
  using HCR = HeatCapacityRatio<T>;
  using SGC = SpecificGasConstant<T>;
  using TE = Temperature<T>;
  using MN = MachNumber<T>;
  using RE = ReynoldsNumber<T>;
  using LE = Length<T>;
  using DV = DynamicViscosity<T>;
  using KV = KinematicViscosity<T>;
  using PR = PrandtlNumber<T>;
  using CP = SpecificIsobaricHeatCapacity<T>;
  using CV = SpecificIsochoricHeatCapacity<T>;
  using ECP = IsobaricHeatCapacity<T>;
  using ECV = IsochoricHeatCapacity<T>;
  using GC = GasConstant<T>;
  using TC = ScalarThermalConductivity<T>;
  using TD = ThermalDiffusivity<T>;
  using TI = Time<T>;
  using FR = Frequency<T>;
  // gamma > 1: cp = cv * (1 + f) with f in (0, 1) derived from the second grid value
  auto gam = [](const T* g, T* in) {
    for (int i = 0; i < 12; i++) in[i] = g[i];
    int e;
    T f = std::frexp(g[1], &e);  // [0.5, 1)
    if (e & 1) f = std::ldexp(f, -6);  // every other grid value: gamma between 1.007 and 1.014 (cancellation in gamma - 1, 1 - 1/gamma)
    in[1] = g[0] * ((T)1 + f * (T)0.9);
  };
  // ---- dynamic pressure 1/2 rho v^2 and its inverses; kinematic form 1/2 v^2
  ROW("DynamicPressure(MassDensity, Speed) = rho v^2 / 2", 2, 1, (CT(DP, Ex<MD>, Ex<SP>)), ID, { o[0] = DP(S<MD>(x[0]), S<SP>(x[1])).Value(); }, { o[0] = x[0] * x[1] * x[1] / 2; })
  ROW("Speed(DynamicPressure, MassDensity) = sqrt(2 q / rho)", 2, 1, (CT(SP, Ex<DP>, Ex<MD>)), ID, { o[0] = SP(S<DP>(x[0]), S<MD>(x[1])).Value(); }, { o[0] = sqrtq(2 * x[0] / x[1]); })
  ROW("MassDensity(DynamicPressure, Speed) = 2 q / v^2", 2, 1, (CT(MD, Ex<DP>, Ex<SP>)), ID, { o[0] = MD(S<DP>(x[0]), S<SP>(x[1])).Value(); }, { o[0] = 2 * x[0] / (x[1] * x[1]); })
  ROW("DynamicKinematicPressure(Speed) = v^2 / 2", 1, 1, (CT(DKP, Ex<SP>)), ID, { o[0] = DKP(S<SP>(x[0])).Value(); }, { o[0] = x[0] * x[0] / 2; })
  ROW("Speed(DynamicKinematicPressure) = sqrt(2 k)", 1, 1, (CT(SP, Ex<DKP>)), ID, { o[0] = SP(S<DKP>(x[0])).Value(); }, { o[0] = sqrtq(2 * x[0]); })
  ROW("DynamicKinematicPressure(DynamicPressure, MassDensity) = q / rho", 2, 1, (CT(DKP, Ex<DP>, Ex<MD>)), ID, { o[0] = DKP(S<DP>(x[0]), S<MD>(x[1])).Value(); }, { o[0] = x[0] / x[1]; })
  ROW("DynamicPressure(MassDensity, DynamicKinematicPressure) = rho k", 2, 1, (CT(DP, Ex<MD>, Ex<DKP>)), ID, { o[0] = DP(S<MD>(x[0]), S<DKP>(x[1])).Value(); }, { o[0] = x[0] * x[1]; })
  // ---- total = static + dynamic (and kinematic forms)
  ROW("TotalPressure(StaticPressure, DynamicPressure) = p + q", 2, 1, (CT(TP, Ex<SPr>, Ex<DP>)), ID, { o[0] = TP(S<SPr>(x[0]), S<DP>(x[1])).Value(); }, { o[0] = x[0] + x[1]; })
  ROW("StaticPressure(TotalPressure, DynamicPressure) = p0 - q", 2, 1, (CT(SPr, Ex<TP>, Ex<DP>)), ID, { o[0] = SPr(S<TP>(x[0]), S<DP>(x[1])).Value(); }, { o[0] = x[0] - x[1]; })
  ROW("DynamicPressure(TotalPressure, StaticPressure) = p0 - p", 2, 1, (CT(DP, Ex<TP>, Ex<SPr>)), ID, { o[0] = DP(S<TP>(x[0]), S<SPr>(x[1])).Value(); }, { o[0] = x[0] - x[1]; })
  ROW("TotalKinematicPressure(StaticKinematicPressure, DynamicKinematicPressure) = sum", 2, 1, (CT(TKP, Ex<SKP>, Ex<DKP>)), ID, { o[0] = TKP(S<SKP>(x[0]), S<DKP>(x[1])).Value(); },
      { o[0] = x[0] + x[1]; })
  ROW("StaticKinematicPressure(TotalKinematicPressure, DynamicKinematicPressure) = difference", 2, 1, (CT(SKP, Ex<TKP>, Ex<DKP>)), ID,
      { o[0] = SKP(S<TKP>(x[0]), S<DKP>(x[1])).Value(); }, { o[0] = x[0] - x[1]; })
  ROW("DynamicKinematicPressure(TotalKinematicPressure, StaticKinematicPressure) = difference", 2, 1, (CT(DKP, Ex<TKP>, Ex<SKP>)), ID,
      { o[0] = DKP(S<TKP>(x[0]), S<SKP>(x[1])).Value(); }, { o[0] = x[0] - x[1]; })
  ROW("StaticKinematicPressure(StaticPressure, MassDensity) = p / rho", 2, 1, (CT(SKP, Ex<SPr>, Ex<MD>)), ID, { o[0] = SKP(S<SPr>(x[0]), S<MD>(x[1])).Value(); }, { o[0] = x[0] / x[1]; })
  ROW("TotalKinematicPressure(TotalPressure, MassDensity) = p0 / rho", 2, 1, (CT(TKP, Ex<TP>, Ex<MD>)), ID, { o[0] = TKP(S<TP>(x[0]), S<MD>(x[1])).Value(); }, { o[0] = x[0] / x[1]; })
  // ---- sound speed
  ROW("SoundSpeed(IsentropicBulkModulus, MassDensity) = sqrt(K / rho)", 2, 1, (CT(SS, Ex<KB>, Ex<MD>)), ID, { o[0] = SS(S<KB>(x[0]), S<MD>(x[1])).Value(); }, { o[0] = sqrtq(x[0] / x[1]); })
  ROW("SoundSpeed(HeatCapacityRatio, StaticPressure, MassDensity) = sqrt(gamma p / rho)", 3, 1, (CT(SS, Ex<HCR>, Ex<SPr>, Ex<MD>)), ID,
      { o[0] = SS(S<HCR>(x[0]), S<SPr>(x[1]), S<MD>(x[2])).Value(); }, { o[0] = sqrtq(x[0] * x[1] / x[2]); })
  ROW("SoundSpeed(HeatCapacityRatio, SpecificGasConstant, Temperature) = sqrt(gamma R T)", 3, 1, (CT(SS, Ex<HCR>, Ex<SGC>, Ex<TE>)), ID,
      { o[0] = SS(S<HCR>(x[0]), S<SGC>(x[1]), S<TE>(x[2])).Value(); }, { o[0] = sqrtq(x[0] * x[1] * x[2]); })
  ROW("IsentropicBulkModulus(MassDensity, SoundSpeed) = rho c^2", 2, 1, (CT(KB, Ex<MD>, Ex<SS>)), ID, { o[0] = KB(S<MD>(x[0]), S<SS>(x[1])).Value(); }, { o[0] = x[0] * x[1] * x[1]; })
  ROW("MassDensity(IsentropicBulkModulus, SoundSpeed) = K / c^2", 2, 1, (CT(MD, Ex<KB>, Ex<SS>)), ID, { o[0] = MD(S<KB>(x[0]), S<SS>(x[1])).Value(); }, { o[0] = x[0] / (x[1] * x[1]); })
  // ---- Mach, Reynolds, Prandtl
  ROW("MachNumber(Speed, SoundSpeed) = v / c", 2, 1, (CT(MN, Ex<SP>, Ex<SS>)), ID, { o[0] = MN(S<SP>(x[0]), S<SS>(x[1])).Value(); }, { o[0] = x[0] / x[1]; })
  ROW("Speed(SoundSpeed, MachNumber) = c M", 2, 1, (CT(SP, Ex<SS>, Ex<MN>)), ID, { o[0] = SP(S<SS>(x[0]), S<MN>(x[1])).Value(); }, { o[0] = x[0] * x[1]; })
  ROW("SoundSpeed(Speed, MachNumber) = v / M", 2, 1, (CT(SS, Ex<SP>, Ex<MN>)), ID, { o[0] = SS(S<SP>(x[0]), S<MN>(x[1])).Value(); }, { o[0] = x[0] / x[1]; })
  ROW("ReynoldsNumber(MassDensity, Speed, Length, DynamicViscosity) = rho v L / mu", 4, 1, (CT(RE, Ex<MD>, Ex<SP>, Ex<LE>, Ex<DV>)), ID,
      { o[0] = RE(S<MD>(x[0]), S<SP>(x[1]), S<LE>(x[2]), S<DV>(x[3])).Value(); }, { o[0] = x[0] * x[1] * x[2] / x[3]; })
  ROW("ReynoldsNumber(Speed, Length, KinematicViscosity) = v L / nu", 3, 1, (CT(RE, Ex<SP>, Ex<LE>, Ex<KV>)), ID, { o[0] = RE(S<SP>(x[0]), S<LE>(x[1]), S<KV>(x[2])).Value(); },
      { o[0] = x[0] * x[1] / x[2]; })
  ROW("DynamicViscosity(MassDensity, Speed, Length, ReynoldsNumber) = rho v L / Re", 4, 1, (CT(DV, Ex<MD>, Ex<SP>, Ex<LE>, Ex<RE>)), ID,
      { o[0] = DV(S<MD>(x[0]), S<SP>(x[1]), S<LE>(x[2]), S<RE>(x[3])).Value(); }, { o[0] = x[0] * x[1] * x[2] / x[3]; })
  ROW("Speed(ReynoldsNumber, DynamicViscosity, MassDensity, Length) = Re mu / (rho L)", 4, 1, (CT(SP, Ex<RE>, Ex<DV>, Ex<MD>, Ex<LE>)), ID,
      { o[0] = SP(S<RE>(x[0]), S<DV>(x[1]), S<MD>(x[2]), S<LE>(x[3])).Value(); }, { o[0] = x[0] * x[1] / (x[2] * x[3]); })
  ROW("Length(ReynoldsNumber, DynamicViscosity, MassDensity, Speed) = Re mu / (rho v)", 4, 1, (CT(LE, Ex<RE>, Ex<DV>, Ex<MD>, Ex<SP>)), ID,
      { o[0] = LE(S<RE>(x[0]), S<DV>(x[1]), S<MD>(x[2]), S<SP>(x[3])).Value(); }, { o[0] = x[0] * x[1] / (x[2] * x[3]); })
  ROW("MassDensity(ReynoldsNumber, DynamicViscosity, Speed, Length) = Re mu / (v L)", 4, 1, (CT(MD, Ex<RE>, Ex<DV>, Ex<SP>, Ex<LE>)), ID,
      { o[0] = MD(S<RE>(x[0]), S<DV>(x[1]), S<SP>(x[2]), S<LE>(x[3])).Value(); }, { o[0] = x[0] * x[1] / (x[2] * x[3]); })
  ROW("KinematicViscosity(Speed, Length, ReynoldsNumber) = v L / Re", 3, 1, (CT(KV, Ex<SP>, Ex<LE>, Ex<RE>)), ID, { o[0] = KV(S<SP>(x[0]), S<LE>(x[1]), S<RE>(x[2])).Value(); },
      { o[0] = x[0] * x[1] / x[2]; })
  ROW("Speed(ReynoldsNumber, KinematicViscosity, Length) = Re nu / L", 3, 1, (CT(SP, Ex<RE>, Ex<KV>, Ex<LE>)), ID, { o[0] = SP(S<RE>(x[0]), S<KV>(x[1]), S<LE>(x[2])).Value(); },
      { o[0] = x[0] * x[1] / x[2]; })
  ROW("Length(ReynoldsNumber, KinematicViscosity, Speed) = Re nu / v", 3, 1, (CT(LE, Ex<RE>, Ex<KV>, Ex<SP>)), ID, { o[0] = LE(S<RE>(x[0]), S<KV>(x[1]), S<SP>(x[2])).Value(); },
      { o[0] = x[0] * x[1] / x[2]; })
  ROW("PrandtlNumber(SpecificIsobaricHeatCapacity, DynamicViscosity, ScalarThermalConductivity) = cp mu / k", 3, 1, (CT(PR, Ex<CP>, Ex<DV>, Ex<TC>)), ID,
      { o[0] = PR(S<CP>(x[0]), S<DV>(x[1]), S<TC>(x[2])).Value(); }, { o[0] = x[0] * x[1] / x[2]; })
  ROW("PrandtlNumber(KinematicViscosity, ThermalDiffusivity) = nu / alpha", 2, 1, (CT(PR, Ex<KV>, Ex<TD>)), ID, { o[0] = PR(S<KV>(x[0]), S<TD>(x[1])).Value(); }, { o[0] = x[0] / x[1]; })
  ROW("ScalarThermalConductivity(SpecificIsobaricHeatCapacity, DynamicViscosity, PrandtlNumber) = cp mu / Pr", 3, 1, (CT(TC, Ex<CP>, Ex<DV>, Ex<PR>)), ID,
      { o[0] = TC(S<CP>(x[0]), S<DV>(x[1]), S<PR>(x[2])).Value(); }, { o[0] = x[0] * x[1] / x[2]; })
  ROW("DynamicViscosity(PrandtlNumber, ScalarThermalConductivity, SpecificIsobaricHeatCapacity) = Pr k / cp", 3, 1, (CT(DV, Ex<PR>, Ex<TC>, Ex<CP>)), ID,
      { o[0] = DV(S<PR>(x[0]), S<TC>(x[1]), S<CP>(x[2])).Value(); }, { o[0] = x[0] * x[1] / x[2]; })
  ROW("SpecificIsobaricHeatCapacity(PrandtlNumber, ScalarThermalConductivity, DynamicViscosity) = Pr k / mu", 3, 1, (CT(CP, Ex<PR>, Ex<TC>, Ex<DV>)), ID,
      { o[0] = CP(S<PR>(x[0]), S<TC>(x[1]), S<DV>(x[2])).Value(); }, { o[0] = x[0] * x[1] / x[2]; })
  // ---- gamma = cp/cv, R = cp - cv (extensive and specific)
  ROW("HeatCapacityRatio(IsobaricHeatCapacity, IsochoricHeatCapacity) = Cp / Cv", 2, 1, (CT(HCR, Ex<ECP>, Ex<ECV>)), gam, { o[0] = HCR(S<ECP>(x[1]), S<ECV>(x[0])).Value(); }, { o[0] = x[1] / x[0]; })
  ROW("GasConstant(IsobaricHeatCapacity, IsochoricHeatCapacity) = Cp - Cv", 2, 1, (CT(GC, Ex<ECP>, Ex<ECV>)), gam, { o[0] = GC(S<ECP>(x[1]), S<ECV>(x[0])).Value(); }, { o[0] = x[1] - x[0]; })
  ROW("HeatCapacityRatio(SpecificIsobaricHeatCapacity, SpecificIsochoricHeatCapacity) = cp / cv", 2, 1, (CT(HCR, Ex<CP>, Ex<CV>)), gam, { o[0] = HCR(S<CP>(x[1]), S<CV>(x[0])).Value(); },
      { o[0] = x[1] / x[0]; })
  ROW("SpecificGasConstant(SpecificIsobaricHeatCapacity, SpecificIsochoricHeatCapacity) = cp - cv", 2, 1, (CT(SGC, Ex<CP>, Ex<CV>)), gam, { o[0] = SGC(S<CP>(x[1]), S<CV>(x[0])).Value(); },
      { o[0] = x[1] - x[0]; })
  // gamma together with one capacity: R = cp (1 - 1/gamma) = cv (gamma - 1); in[1] is a gamma in (1, 1.9]
  ROW("GasConstant(HeatCapacityRatio, IsobaricHeatCapacity) = Cp (1 - 1/gamma)", 2, 1, (CT(GC, Ex<HCR>, Ex<ECP>)),
      [](const T* g, T* in) {
        int e;
        in[0] = g[0];
        in[1] = gamma_from<T>(g[1]);
        (void)e;
      },
      { o[0] = GC(S<HCR>(x[1]), S<ECP>(x[0])).Value(); }, { o[0] = x[0] * (1 - 1 / x[1]); })
  ROW("GasConstant(HeatCapacityRatio, IsochoricHeatCapacity) = Cv (gamma - 1)", 2, 1, (CT(GC, Ex<HCR>, Ex<ECV>)),
      [](const T* g, T* in) {
        int e;
        in[0] = g[0];
        in[1] = gamma_from<T>(g[1]);
        (void)e;
      },
      { o[0] = GC(S<HCR>(x[1]), S<ECV>(x[0])).Value(); }, { o[0] = x[0] * (x[1] - 1); })
  ROW("SpecificGasConstant(HeatCapacityRatio, SpecificIsobaricHeatCapacity) = cp (1 - 1/gamma)", 2, 1, (CT(SGC, Ex<HCR>, Ex<CP>)),
      [](const T* g, T* in) {
        int e;
        in[0] = g[0];
        in[1] = gamma_from<T>(g[1]);
        (void)e;
      },
      { o[0] = SGC(S<HCR>(x[1]), S<CP>(x[0])).Value(); }, { o[0] = x[0] * (1 - 1 / x[1]); })
  ROW("SpecificGasConstant(HeatCapacityRatio, SpecificIsochoricHeatCapacity) = cv (gamma - 1)", 2, 1, (CT(SGC, Ex<HCR>, Ex<CV>)),
      [](const T* g, T* in) {
        int e;
        in[0] = g[0];
        in[1] = gamma_from<T>(g[1]);
        (void)e;
      },
      { o[0] = SGC(S<HCR>(x[1]), S<CV>(x[0])).Value(); }, { o[0] = x[0] * (x[1] - 1); })

  // gamma, cp, cv, R in every direction the tree offers (extensive and specific forms)
  auto gamma2 = [](const T* g, T* in) {  // in[0] any positive, in[1] = a heat-capacity ratio in (1, 1.9]
    int e;
    in[0] = g[0];
    in[1] = gamma_from<T>(g[1]);
        (void)e;
  };
  auto fraction2 = [](const T* g, T* in) {  // in[0] any positive, in[1] = a fraction (0.05, 0.5] of it (R < cp)
    int e;
    in[0] = g[0];
    T fr = std::frexp(g[1], &e) * (T)0.9 - (T)0.4;
    if (e & 1) fr = std::ldexp(fr, -6);  // every other grid value: R a hundredth of cp and less (gamma next to one)
    in[1] = g[0] * fr;
  };
#define GAS_ROWS(CPt, CVt, Rt, L)                                                                                                                             \
  ROW(L " cv(R, gamma) = R / (gamma - 1)", 2, 1, (CT(CVt, Ex<Rt>, Ex<HCR>)), gamma2, { o[0] = CVt(S<Rt>(x[0]), S<HCR>(x[1])).Value(); }, { o[0] = x[0] / (x[1] - 1); })   \
  ROW(L " gamma(R, cv) = 1 + R / cv", 2, 1, (CT(HCR, Ex<Rt>, Ex<CVt>)), ID, { o[0] = HCR(S<Rt>(x[0]), S<CVt>(x[1])).Value(); }, { o[0] = 1 + x[0] / x[1]; })               \
  ROW(L " cp(gamma, R) = gamma R / (gamma - 1)", 2, 1, (CT(CPt, Ex<HCR>, Ex<Rt>)), gamma2, { o[0] = CPt(S<HCR>(x[1]), S<Rt>(x[0])).Value(); }, { o[0] = x[1] * x[0] / (x[1] - 1); }) \
  ROW(L " cp(gamma, cv) = gamma cv", 2, 1, (CT(CPt, Ex<HCR>, Ex<CVt>)), gamma2, { o[0] = CPt(S<HCR>(x[1]), S<CVt>(x[0])).Value(); }, { o[0] = x[1] * x[0]; })                \
  ROW(L " gamma(cp, R) = cp / (cp - R)", 2, 1, (CT(HCR, Ex<CPt>, Ex<Rt>)), fraction2, { o[0] = HCR(S<CPt>(x[0]), S<Rt>(x[1])).Value(); }, { o[0] = x[0] / (x[0] - x[1]); })    \
  ROW(L " cv(cp, R) = cp - R", 2, 1, (CT(CVt, Ex<CPt>, Ex<Rt>)), fraction2, { o[0] = CVt(S<CPt>(x[0]), S<Rt>(x[1])).Value(); }, { o[0] = x[0] - x[1]; })                       \
  ROW(L " cv(cp, gamma) = cp / gamma", 2, 1, (CT(CVt, Ex<CPt>, Ex<HCR>)), gamma2, { o[0] = CVt(S<CPt>(x[0]), S<HCR>(x[1])).Value(); }, { o[0] = x[0] / x[1]; })              \
  ROW(L " cp(cv, R) = cv + R", 2, 1, (CT(CPt, Ex<CVt>, Ex<Rt>)), ID, { o[0] = CPt(S<CVt>(x[0]), S<Rt>(x[1])).Value(); }, { o[0] = x[0] + x[1]; })
  GAS_ROWS(ECP, ECV, GC, "extensive:")
  GAS_ROWS(CP, CV, SGC, "specific:")
  ROW("GasConstant(SpecificGasConstant, Mass) = R m", 2, 1, (CT(GC, Ex<SGC>, Ex<Mass<T>>)), ID, { o[0] = GC(S<SGC>(x[0]), S<Mass<T>>(x[1])).Value(); }, { o[0] = x[0] * x[1]; })
  ROW("SpecificIsobaricHeatCapacity(IsobaricHeatCapacity, Mass) = Cp / m", 2, 1, (CT(CP, Ex<ECP>, Ex<Mass<T>>)), ID, { o[0] = CP(S<ECP>(x[0]), S<Mass<T>>(x[1])).Value(); }, { o[0] = x[0] / x[1]; })
  ROW("SpecificIsochoricHeatCapacity(IsochoricHeatCapacity, Mass) = Cv / m", 2, 1, (CT(CV, Ex<ECV>, Ex<Mass<T>>)), ID, { o[0] = CV(S<ECV>(x[0]), S<Mass<T>>(x[1])).Value(); }, { o[0] = x[0] / x[1]; })
  ROW("IsobaricHeatCapacity(SpecificIsobaricHeatCapacity, Mass) = cp m", 2, 1, (CT(ECP, Ex<CP>, Ex<Mass<T>>)), ID, { o[0] = ECP(S<CP>(x[0]), S<Mass<T>>(x[1])).Value(); }, { o[0] = x[0] * x[1]; })
  ROW("IsochoricHeatCapacity(SpecificIsochoricHeatCapacity, Mass) = cv m", 2, 1, (CT(ECV, Ex<CV>, Ex<Mass<T>>)), ID, { o[0] = ECV(S<CV>(x[0]), S<Mass<T>>(x[1])).Value(); }, { o[0] = x[0] * x[1]; })
  ROW("SpecificGasConstant(GasConstant, Mass) = R / m", 2, 1, (CT(SGC, Ex<GC>, Ex<Mass<T>>)), ID, { o[0] = SGC(S<GC>(x[0]), S<Mass<T>>(x[1])).Value(); }, { o[0] = x[0] / x[1]; })
  // ---- thermal diffusivity, kinematic viscosity
  ROW("ThermalDiffusivity(ScalarThermalConductivity, MassDensity, SpecificIsobaricHeatCapacity) = k / (rho cp)", 3, 1, (CT(TD, Ex<TC>, Ex<MD>, Ex<CP>)), ID,
      { o[0] = TD(S<TC>(x[0]), S<MD>(x[1]), S<CP>(x[2])).Value(); }, { o[0] = x[0] / (x[1] * x[2]); })
  ROW("ScalarThermalConductivity(MassDensity, SpecificIsobaricHeatCapacity, ThermalDiffusivity) = rho cp alpha", 3, 1, (CT(TC, Ex<MD>, Ex<CP>, Ex<TD>)), ID,
      { o[0] = TC(S<MD>(x[0]), S<CP>(x[1]), S<TD>(x[2])).Value(); }, { o[0] = x[0] * x[1] * x[2]; })
  ROW("KinematicViscosity(DynamicViscosity, MassDensity) = mu / rho", 2, 1, (CT(KV, Ex<DV>, Ex<MD>)), ID, { o[0] = KV(S<DV>(x[0]), S<MD>(x[1])).Value(); }, { o[0] = x[0] / x[1]; })
  ROW("DynamicViscosity(MassDensity, KinematicViscosity) = rho nu", 2, 1, (CT(DV, Ex<MD>, Ex<KV>)), ID, { o[0] = DV(S<MD>(x[0]), S<KV>(x[1])).Value(); }, { o[0] = x[0] * x[1]; })
  ROW("ThermalDiffusivity(KinematicViscosity, PrandtlNumber) = nu / Pr", 2, 1, (CT(TD, Ex<KV>, Ex<PR>)), ID, { o[0] = TD(S<KV>(x[0]), S<PR>(x[1])).Value(); }, { o[0] = x[0] / x[1]; })
  // ---- period = 1 / frequency
  ROW("Time(Frequency) = 1 / f", 1, 1, (CT(TI, Ex<FR>)), ID, { o[0] = TI(S<FR>(x[0])).Value(); }, { o[0] = 1 / x[0]; })
  ROW("Frequency(Time) = 1 / t", 1, 1, (CT(FR, Ex<TI>)), ID, { o[0] = FR(S<TI>(x[0])).Value(); }, { o[0] = 1 / x[0]; })
  ROW("Frequency.Period() = 1 / f", 1, 1, (HasPeriod<FR>::value), ID, { o[0] = S<FR>(x[0]).Period().Value(); }, { o[0] = 1 / x[0]; })
  ROW("Time.Frequency() = 1 / t", 1, 1, (HasFrequencyM<TI>::value), ID, { o[0] = S<TI>(x[0]).Frequency().Value(); }, { o[0] = 1 / x[0]; })
  // ---- thermal strain
  ROW("ScalarStrain(LinearThermalExpansionCoefficient, TemperatureDifference) = alpha dT", 2, 1, (CT(ScalarStrain<T>, Ex<LinearThermalExpansionCoefficient<T>>, Ex<TemperatureDifference<T>>)), ID,
      { o[0] = ScalarStrain<T>(S<LinearThermalExpansionCoefficient<T>>(x[0]), S<TemperatureDifference<T>>(x[1])).Value(); }, { o[0] = x[0] * x[1]; })
  ROW("Strain(VolumetricThermalExpansionCoefficient, TemperatureDifference) = (beta dT / 3) I", 2, 6,
      (CT(Strain<T>, Ex<VolumetricThermalExpansionCoefficient<T>>, Ex<TemperatureDifference<T>>)), ID,
      { vf::comps(Strain<T>(S<VolumetricThermalExpansionCoefficient<T>>(x[0]), S<TemperatureDifference<T>>(x[1])), o); },
      {
        const f128 d = x[0] * x[1] / 3;
        o[0] = d; o[1] = 0; o[2] = 0; o[3] = d; o[4] = 0; o[5] = d;
      })
  ROW("VolumetricThermalExpansionCoefficient * TemperatureDifference = (beta dT / 3) I", 2, 6, (HasTimes<VolumetricThermalExpansionCoefficient<T>, TemperatureDifference<T>>::value), ID,
      { vf::comps(S<VolumetricThermalExpansionCoefficient<T>>(x[0]) * S<TemperatureDifference<T>>(x[1]), o); },
      {
        const f128 d = x[0] * x[1] / 3;
        o[0] = d; o[1] = 0; o[2] = 0; o[3] = d; o[4] = 0; o[5] = d;
      })
  // ---- static pressure as isotropic stress -p I
  ROW("Stress(StaticPressure) = -p I", 1, 6, (CT(Stress<T>, Ex<SPr>)), ID, { vf::comps(Stress<T>(S<SPr>(x[0])), o); },
      { o[0] = -x[0]; o[1] = 0; o[2] = 0; o[3] = -x[0]; o[4] = 0; o[5] = -x[0]; })
  ROW("StaticPressure.Stress() = -p I", 1, 6, (HasStressM<SPr>::value), ID, { vf::comps(S<SPr>(x[0]).Stress(), o); }, { o[0] = -x[0]; o[1] = 0; o[2] = 0; o[3] = -x[0]; o[4] = 0; o[5] = -x[0]; })
}

// tensor-valued definitions on asymmetric tensors (both signs, all slots distinct)
template <class T>
void tensors() {
  const std::string tn = vf::TName<T>::value;
  unsigned long long s = 0xA5A5A5A55A5A5A5AULL;
  const int N = thorough ? 400 : 60;
  double worst = 0;
  for (int it = 0; it < N; it++) {
    T c[12];
    for (auto& x : c) {
      s = s * 6364136223846793005ULL + 1442695040888963407ULL;
      long double u = (long double)(s >> 11) / (long double)(1ULL << 53);
      s = s * 6364136223846793005ULL + 1442695040888963407ULL;
      x = (T)std::ldexp((0.3L + 1.7L * u) * ((s >> 20) & 1 ? -1 : 1), (int)((s >> 33) % 7) - 3 + (it % 5 - 2) * 6);
    }
    // every fourth tensor is rotation-dominated: the transposed entries nearly cancel (spin much larger than shear), each with
    // its own full mantissa - the symmetric part is then a small difference of large numbers
    if (it % 4 == 3) {
      c[3] = -c[1] - c[1] * (T)(1.0L / 12288);
      c[6] = -c[2] + c[2] * (T)(1.0L / 30011);
      c[7] = -c[5] * (T)(1 - 1.0L / 65521);
    }
    auto cmp = [&](const char* name, const T* got, const f128* want, const f128* scale, int n) {
      vf::stat("evaluations");
      for (int i = 0; i < n; i++) {
        const double u = scale[i] == 0 ? (got[i] == 0 ? 0.0 : INFINITY) : vf::ulps<T>(got[i], want[i], scale[i]);
        if (u > worst && std::isfinite(u)) worst = u;
        if (!(u <= 4.0)) {
          std::string ins = "[";
          for (int k = 0; k < 12; k++) ins += (k ? "," : "") + vf::jstr(vf::hex(c[k]));
          vf::viol(std::string("definition|") + name + "|" + tn, std::string("{\"definition\":") + vf::jstr(name) + ",\"inputs\":" + ins + "],\"component\":" + std::to_string(i) +
                                                                  ",\"observed\":" + vf::jstr(vf::hex(got[i])) + ",\"textbook\":" + vf::jstr(vf::hexq(want[i])) + "}");
          return;
        }
      }
      vf::setadd("rows_present", name);
    };
    // strain = symmetric part of the displacement gradient: (G + G^T) / 2
    {
      const DisplacementGradient<T> G(Dyad<T>(c[0], c[1], c[2], c[3], c[4], c[5], c[6], c[7], c[8]));
      f128 want[6] = {(f128)c[0], ((f128)c[1] + c[3]) / 2, ((f128)c[2] + c[6]) / 2, (f128)c[4], ((f128)c[5] + c[7]) / 2, (f128)c[8]};
      // one correctly rounded addition and an exact halving: a few ulps of the RESULT, also where the two entries nearly cancel
      f128 sc[6] = {fabsq(want[0]), fabsq(want[1]), fabsq(want[2]), fabsq(want[3]), fabsq(want[4]), fabsq(want[5])};
      T got[6];
      if constexpr (HasStrainM<DisplacementGradient<T>>::value) {
        vf::comps(G.Strain(), got);
        cmp("DisplacementGradient.Strain() = (G + G^T) / 2", got, want, sc, 6);
      }
      if constexpr (std::is_constructible_v<Strain<T>, Ex<DisplacementGradient<T>>>) {
        vf::comps(Strain<T>(G), got);
        cmp("Strain(DisplacementGradient) = (G + G^T) / 2", got, want, sc, 6);
      }
      const VelocityGradient<T> L(Dyad<T>(c[0], c[1], c[2], c[3], c[4], c[5], c[6], c[7], c[8]), Unit::Frequency::Hertz);
      if constexpr (HasStrainRateM<VelocityGradient<T>>::value) {
        vf::comps(L.StrainRate(), got);
        cmp("VelocityGradient.StrainRate() = (L + L^T) / 2", got, want, sc, 6);
      }
      if constexpr (std::is_constructible_v<StrainRate<T>, Ex<VelocityGradient<T>>>) {
        vf::comps(StrainRate<T>(L), got);
        cmp("StrainRate(VelocityGradient) = (L + L^T) / 2", got, want, sc, 6);
      }
    }
    // near-hydrostatic stresses: large mean normal stress, small deviator (every third tensor)
    if (it % 3 == 1) {
      const T p = (T)std::ldexp((T)1.5625, 6 + 7 * (it % 4));
      c[0] = p + c[0] * (T)0.03125;
      c[3] = p + c[3] * (T)0.03125;
      c[5] = p + c[5] * (T)0.03125;
      c[1] *= (T)0.015625;
      c[2] *= (T)0.015625;
      c[4] *= (T)0.015625;
    }
    // structured stress states (the last 24 tensors): a single non-zero component, and a hydrostatic state -p I plus a single
    // shear component - pure xy, xz, yz shear, uniaxial tension
    if (it >= N - 24) {
      const int k = (N - 1 - it) % 6, variant = (N - 1 - it) / 6;  // component, 0..3
      const T keep = c[k] != 0 ? c[k] : (T)2.5, p = variant >= 2 ? c[6] : (T)0;
      for (int i = 0; i < 6; i++) c[i] = 0;
      c[0] = c[3] = c[5] = variant >= 2 ? -p : (T)0;
      if (variant % 2 == 0 || (k != 0 && k != 3 && k != 5))
        c[k] = (k == 0 || k == 3 || k == 5) ? c[k] + keep : keep;
      else
        c[k] = c[k] + keep;
    }
    // von Mises stress
    {
      const Stress<T> sg(SymmetricDyad<T>(c[0], c[1], c[2], c[3], c[4], c[5]), Unit::Pressure::Pascal);
      const f128 xx = c[0], xy = c[1], xz = c[2], yy = c[3], yz = c[4], zz = c[5];
      const f128 q = ((xx - yy) * (xx - yy) + (yy - zz) * (yy - zz) + (zz - xx) * (zz - xx)) / 2 + 3 * (xy * xy + yz * yz + xz * xz);
      f128 want[1] = {sqrtq(q)};
      // the textbook form takes differences of the normal stresses first (exact or correctly rounded), so it is accurate
      // to a few ulps of the RESULT even when the mean stress dwarfs the deviator
      f128 sc[1] = {want[0]};
      if constexpr (HasVonMises<Stress<T>>::value) {
        T got[1] = {sg.VonMises().Value()};
        cmp("Stress.VonMises() = sqrt(((sxx-syy)^2+(syy-szz)^2+(szz-sxx)^2)/2 + 3(sxy^2+syz^2+sxz^2))", got, want, sc, 1);
      }
      // traction = sigma . n
      const Direction<T> n(c[6], c[7], c[8]);
      T nc[3];
      vf::comps(n, nc);
      f128 wt[3] = {xx * nc[0] + xy * nc[1] + xz * nc[2], xy * nc[0] + yy * nc[1] + yz * nc[2], xz * nc[0] + yz * nc[1] + zz * nc[2]};
      f128 st[3] = {fabsq(xx * nc[0]) + fabsq(xy * nc[1]) + fabsq(xz * nc[2]), fabsq(xy * nc[0]) + fabsq(yy * nc[1]) + fabsq(yz * nc[2]), fabsq(xz * nc[0]) + fabsq(yz * nc[1]) + fabsq(zz * nc[2])};
      T gt[3];
      if constexpr (HasTractionM<Stress<T>, Direction<T>>::value) {
        vf::comps(sg.Traction(n), gt);
        cmp("Stress.Traction(Direction) = sigma . n", gt, wt, st, 3);
      }
      if constexpr (std::is_constructible_v<Traction<T>, Ex<Stress<T>>, Ex<Direction<T>>>) {
        vf::comps(Traction<T>(sg, n), gt);
        cmp("Traction(Stress, Direction) = sigma . n", gt, wt, st, 3);
      }
      const PlanarDirection<T> pn(c[9], c[10]);
      T pc[2];
      vf::comps(pn, pc);
      f128 wp[2] = {xx * pc[0] + xy * pc[1], xy * pc[0] + yy * pc[1]};
      f128 sp[2] = {fabsq(xx * pc[0]) + fabsq(xy * pc[1]), fabsq(xy * pc[0]) + fabsq(yy * pc[1])};
      T gp[2];
      if constexpr (HasPlanarTractionM<Stress<T>, PlanarDirection<T>>::value) {
        vf::comps(sg.PlanarTraction(pn), gp);
        cmp("Stress.PlanarTraction(PlanarDirection) = (sigma . n) in the plane", gp, wp, sp, 2);
      }
    }
  }
  vf::maxf("max_tensor_definition_ulps_" + tn, worst);
}

template <class T>
void all() {
  table<T>();
  tensors<T>();
  if (std::is_same_v<T, double>)
    vf::sample(std::string("{\"definition\":\"DynamicPressure(MassDensity, Speed) = rho v^2 / 2\",\"rho\":1.225,\"v\":10,\"observed\":") +
               vf::jstr(vf::dec(DynamicPressure<double>(S<MassDensity<double>>(1.225), S<Speed<double>>(10.0)).Value())) + "}");
}
int main(int argc, char** argv) {
  thorough = std::getenv("VERIF_TIER") && std::string(std::getenv("VERIF_TIER")) == "thorough";
  const std::string t = argc > 1 ? argv[1] : "double";
  if (t == "float") all<float>();
  if (t == "double") all<double>();
  if (t == "longdouble") all<long double>();
  return 0;
}
