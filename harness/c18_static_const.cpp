// c18_static_const.cpp - the evaluation-time axis of the square-root / power definitions: a namespace-scope `static const`
// number initialised from literals may be evaluated by the compiler (if the relation is constexpr) or at start-up (if it is
// not); either way it must be the number the same expression gives at run time on values the compiler cannot see.
#include <PhQ/DynamicKinematicPressure.hpp>
#include <PhQ/DynamicPressure.hpp>
#include <PhQ/HeatCapacityRatio.hpp>
#include <PhQ/IsentropicBulkModulus.hpp>
#include <PhQ/MachNumber.hpp>
#include <PhQ/MassDensity.hpp>
#include <PhQ/SoundSpeed.hpp>
#include <PhQ/SpecificGasConstant.hpp>
#include <PhQ/Speed.hpp>
#include <PhQ/StaticPressure.hpp>
#include <PhQ/Stress.hpp>
#include <PhQ/Temperature.hpp>

#include "vf.hpp"
using namespace PhQ;

// X(T, name, expression in terms of a, b, c) with the literal values A, B, C
#define CASES(X)                                                                                                                              \
  X(sound_speed_water, SoundSpeed<T>(IsentropicBulkModulus<T>::template Create<Unit::Pressure::Pascal>(a), MassDensity<T>::template Create<Unit::MassDensity::KilogramPerCubicMetre>(b)).Value(), 2.2e9L, 998.2L, 0.0L) \
  X(sound_speed_steel, SoundSpeed<T>(IsentropicBulkModulus<T>::template Create<Unit::Pressure::Pascal>(a), MassDensity<T>::template Create<Unit::MassDensity::KilogramPerCubicMetre>(b)).Value(), 1.6e11L, 7850.0L, 0.0L) \
  X(sound_speed_air, SoundSpeed<T>(HeatCapacityRatio<T>(a), StaticPressure<T>::template Create<Unit::Pressure::Pascal>(b), MassDensity<T>::template Create<Unit::MassDensity::KilogramPerCubicMetre>(c)).Value(), 1.4L, 101325.0L, 1.204L) \
  X(sound_speed_helium, SoundSpeed<T>(HeatCapacityRatio<T>(a), SpecificGasConstant<T>::template Create<Unit::SpecificHeatCapacity::JoulePerKilogramPerKelvin>(b), Temperature<T>::template Create<Unit::Temperature::Kelvin>(c)).Value(), 1.66L, 2077.1L, 1200.0L) \
  X(speed_from_q, Speed<T>(DynamicPressure<T>::template Create<Unit::Pressure::Pascal>(a), MassDensity<T>::template Create<Unit::MassDensity::KilogramPerCubicMetre>(b)).Value(), 6.0e6L, 1.225L, 0.0L)                \
  X(speed_from_k, Speed<T>(DynamicKinematicPressure<T>::template Create<Unit::SpecificEnergy::JoulePerKilogram>(a)).Value(), 3.7e7L, 0.0L, 0.0L)                                                   \
  X(dynamic_pressure, DynamicPressure<T>(MassDensity<T>::template Create<Unit::MassDensity::KilogramPerCubicMetre>(a), Speed<T>::template Create<Unit::Speed::MetrePerSecond>(b)).Value(), 998.2L, 3400.0L, 0.0L)       \
  X(kinematic_pressure, DynamicKinematicPressure<T>(Speed<T>::template Create<Unit::Speed::MetrePerSecond>(a)).Value(), 0.00031L, 0.0L, 0.0L)                                                          \
  X(von_mises, Stress<T>::template Create<Unit::Pressure::Pascal>(SymmetricDyad<T>(a, b, c, -a, b / 3, c * 7)).VonMises().Value(), 3.5e7L, -1.2e7L, 4.4e6L)

template <class T>
struct K {
#define DECL(NAME, EXPR, A, B, C) static const T NAME;
  CASES(DECL)
#undef DECL
};
#define DEF(NAME, EXPR, A, B, C)                    \
  template <class T>                                \
  const T K<T>::NAME = [] {                         \
    const T a = (T)A, b = (T)B, c = (T)C;           \
    (void)a; (void)b; (void)c;                      \
    return (T)(EXPR);                               \
  }();
CASES(DEF)
#undef DEF
// plain namespace-scope constants of each type as well (not members of a template)
#define PLAIN(NAME, EXPR, A, B, C)                                                                  \
  namespace plain_double { using T = double; static const T NAME = [] { const T a = (T)A, b = (T)B, c = (T)C; (void)a; (void)b; (void)c; return (T)(EXPR); }(); } \
  namespace plain_float { using T = float; static const T NAME = [] { const T a = (T)A, b = (T)B, c = (T)C; (void)a; (void)b; (void)c; return (T)(EXPR); }(); }   \
  namespace plain_ld { using T = long double; static const T NAME = [] { const T a = (T)A, b = (T)B, c = (T)C; (void)a; (void)b; (void)c; return (T)(EXPR); }(); }
CASES(PLAIN)
#undef PLAIN
// and literally written constant expressions (no lambda): the pattern `static const double x = Relation(literals).Value();`
namespace literal {
static const double water = SoundSpeed<double>(IsentropicBulkModulus<double>::Create<Unit::Pressure::Pascal>(2.2e9), MassDensity<double>::Create<Unit::MassDensity::KilogramPerCubicMetre>(998.2)).Value();
static const float steel = SoundSpeed<float>(IsentropicBulkModulus<float>::Create<Unit::Pressure::Pascal>(1.6e11F), MassDensity<float>::Create<Unit::MassDensity::KilogramPerCubicMetre>(7850.0F)).Value();
static const long double helium =
    SoundSpeed<long double>(HeatCapacityRatio<long double>(1.66L), SpecificGasConstant<long double>::Create<Unit::SpecificHeatCapacity::JoulePerKilogramPerKelvin>(2077.1L), Temperature<long double>::Create<Unit::Temperature::Kelvin>(1200.0L)).Value();
static const double speed = Speed<double>(DynamicPressure<double>::Create<Unit::Pressure::Pascal>(6.0e6), MassDensity<double>::Create<Unit::MassDensity::KilogramPerCubicMetre>(1.225)).Value();
}  // namespace literal

template <class T>
static void run(const T* plain) {
  int i = 0;
#define CHECK(NAME, EXPR, A, B, C)                                                                                                          \
  {                                                                                                                                          \
    volatile T va = (T)A, vb = (T)B, vc = (T)C;                                                                                              \
    const T a = va, b = vb, c = vc;                                                                                                          \
    (void)a; (void)b; (void)c;                                                                                                               \
    const T at_run_time = (T)(EXPR);                                                                                                         \
    vf::stat("evaluations", 2);                                                                                                              \
    if (!vf::same_bits(K<T>::NAME, at_run_time) || !vf::same_bits(plain[i], at_run_time))                                                    \
      vf::viol(std::string("definition|static-const-differs-from-run-time|") + #NAME + "|" + vf::TName<T>::value,                           \
               std::string("{\"definition\":\"") + #NAME + "\",\"static_const_member\":" + vf::jstr(vf::hex(K<T>::NAME)) + ",\"static_const_at_namespace_scope\":" + vf::jstr(vf::hex(plain[i])) + \
                   ",\"at_run_time\":" + vf::jstr(vf::hex(at_run_time)) + "}");                                                             \
    i++;                                                                                                                                     \
  }
  CASES(CHECK)
#undef CHECK
}
int main() {
#define LIST(NAME, EXPR, A, B, C) NAME,
  {
    using namespace plain_float;
    const float p[] = {CASES(LIST)};
    run<float>(p);
  }
  {
    using namespace plain_double;
    const double p[] = {CASES(LIST)};
    run<double>(p);
  }
  {
    using namespace plain_ld;
    const long double p[] = {CASES(LIST)};
    run<long double>(p);
  }
  volatile double w1 = 2.2e9, w2 = 998.2, q1 = 6.0e6, q2 = 1.225;
  volatile float s1 = 1.6e11F, s2 = 7850.0F;
  volatile long double h1 = 1.66L, h2 = 2077.1L, h3 = 1200.0L;
  const bool ok = vf::same_bits(literal::water, SoundSpeed<double>(IsentropicBulkModulus<double>::Create<Unit::Pressure::Pascal>(w1), MassDensity<double>::Create<Unit::MassDensity::KilogramPerCubicMetre>(w2)).Value()) &&
                  vf::same_bits(literal::steel, SoundSpeed<float>(IsentropicBulkModulus<float>::Create<Unit::Pressure::Pascal>(s1), MassDensity<float>::Create<Unit::MassDensity::KilogramPerCubicMetre>(s2)).Value()) &&
                  vf::same_bits(literal::helium, SoundSpeed<long double>(HeatCapacityRatio<long double>(h1), SpecificGasConstant<long double>::Create<Unit::SpecificHeatCapacity::JoulePerKilogramPerKelvin>(h2),
                                                                          Temperature<long double>::Create<Unit::Temperature::Kelvin>(h3))
                                                     .Value()) &&
                  vf::same_bits(literal::speed, Speed<double>(DynamicPressure<double>::Create<Unit::Pressure::Pascal>(q1), MassDensity<double>::Create<Unit::MassDensity::KilogramPerCubicMetre>(q2)).Value());
  vf::stat("evaluations", 4);
  if (!ok) vf::viol("definition|static-const-differs-from-run-time|literal-initialisers", "{\"what\":\"a static const number initialised from literals differs from the same expression at run time\"}");
  vf::stat("static_const_definitions_checked", 9);
  return 0;
}
