// c20_api.cpp - every named component accessor / mutator of the four vector/tensor classes, called
// once each on every numeric type, with a functional oracle (exactly the intended slot changes) so
// that an out-of-range or mis-indexed access is observable both functionally and by the sanitizers.
#include <PhQ/Dyad.hpp>
#include <PhQ/PlanarVector.hpp>
#include <PhQ/SymmetricDyad.hpp>
#include <PhQ/Vector.hpp>

#include "probe.hpp"

template <class X, class T, int N>
struct Sweep {
  const char* tname;
  T guard_lo[4];
  X obj;
  T guard_hi[4];
  void reset() {
    T c[9];
    for (int i = 0; i < 9; i++) c[i] = (T)(i + 1);
    obj = vf::RawMake<X>::make(c);
    for (int i = 0; i < 4; i++) guard_lo[i] = guard_hi[i] = (T)777;
  }
  // after an operation that should have written value v into slot `slot` (and nothing else)
  void expect(const char* op, int slot, T v) {
    T c[9];
    vf::comps(obj, c);
    bool ok = true;
    for (int i = 0; i < N; i++) ok = ok && (c[i] == (i == slot ? v : (T)(i + 1)));
    for (int i = 0; i < 4; i++) ok = ok && guard_lo[i] == (T)777 && guard_hi[i] == (T)777;
    vf::stat("accessor_calls");
    if (!ok) vf::viol(std::string("accessor|") + tname + "|" + op + "|" + vf::TName<T>::value, "{\"type\":" + vf::jstr(tname) + ",\"operation\":" + vf::jstr(op) + ",\"after\":" + vf::comps_hex(obj) + "}");
  }
  void expect_get(const char* op, T got, int slot) {
    vf::stat("accessor_calls");
    if (got != (T)(slot + 1)) vf::viol(std::string("accessor|") + tname + "|" + op + "|" + vf::TName<T>::value, "{\"returned\":" + vf::jstr(vf::hex(got)) + "}");
  }
};
#define SET(NAME, SLOT)            \
  s.reset();                       \
  s.obj.Set_##NAME((T)50);         \
  s.expect("Set_" #NAME, SLOT, (T)50); \
  s.reset();                       \
  s.obj.Mutable_##NAME() = (T)60;  \
  s.expect("Mutable_" #NAME, SLOT, (T)60); \
  s.reset();                       \
  s.expect_get(#NAME "()", s.obj.NAME(), SLOT);

template <class T>
void all() {
  {
    Sweep<PhQ::PlanarVector<T>, T, 2> s{"PlanarVector"};
    SET(x, 0) SET(y, 1)
    s.reset();
    s.obj.Set_x_y((T)8, (T)9);
    s.obj.Set_x_y(std::array<T, 2>{(T)1, (T)2});
    s.expect("Set_x_y", -1, 0);
    s.obj.Mutable_x_y()[1] = (T)70;
    s.expect("Mutable_x_y()[1]", 1, (T)70);
  }
  {
    Sweep<PhQ::Vector<T>, T, 3> s{"Vector"};
    SET(x, 0) SET(y, 1) SET(z, 2)
    s.reset();
    s.obj.Set_x_y_z((T)7, (T)8, (T)9);
    s.obj.Set_x_y_z(std::array<T, 3>{(T)1, (T)2, (T)3});
    s.expect("Set_x_y_z", -1, 0);
    s.obj.Mutable_x_y_z()[2] = (T)70;
    s.expect("Mutable_x_y_z()[2]", 2, (T)70);
  }
  {
    Sweep<PhQ::SymmetricDyad<T>, T, 6> s{"SymmetricDyad"};
    SET(xx, 0) SET(xy, 1) SET(xz, 2) SET(yx, 1) SET(yy, 3) SET(yz, 4) SET(zx, 2) SET(zy, 4) SET(zz, 5)
    s.reset();
    s.obj.Set_xx_xy_xz_yy_yz_zz((T)9, (T)8, (T)7, (T)6, (T)5, (T)4);
    s.obj.Set_xx_xy_xz_yy_yz_zz(std::array<T, 6>{(T)1, (T)2, (T)3, (T)4, (T)5, (T)6});
    s.expect("Set_xx_xy_xz_yy_yz_zz", -1, 0);
    s.obj.Mutable_xx_xy_xz_yy_yz_zz()[5] = (T)70;
    s.expect("Mutable_xx_xy_xz_yy_yz_zz()[5]", 5, (T)70);
  }
  {
    Sweep<PhQ::Dyad<T>, T, 9> s{"Dyad"};
    SET(xx, 0) SET(xy, 1) SET(xz, 2) SET(yx, 3) SET(yy, 4) SET(yz, 5) SET(zx, 6) SET(zy, 7) SET(zz, 8)
    s.reset();
    s.obj.Set_xx_xy_xz_yx_yy_yz_zx_zy_zz((T)9, (T)8, (T)7, (T)6, (T)5, (T)4, (T)3, (T)2, (T)1);
    s.obj.Set_xx_xy_xz_yx_yy_yz_zx_zy_zz(std::array<T, 9>{(T)1, (T)2, (T)3, (T)4, (T)5, (T)6, (T)7, (T)8, (T)9});
    s.expect("Set_xx_xy_xz_yx_yy_yz_zx_zy_zz", -1, 0);
    s.obj.Mutable_xx_xy_xz_yx_yy_yz_zx_zy_zz()[8] = (T)70;
    s.expect("Mutable_xx..zz()[8]", 8, (T)70);
  }
}
int main() {
  all<float>();
  all<double>();
  all<long double>();
  vf::sample("{\"type\":\"SymmetricDyad<double>\",\"operation\":\"Set_zy(50)\",\"expected\":\"slot yz (index 4) becomes 50, nothing else changes\"}");
}
