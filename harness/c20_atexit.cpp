// c20_atexit.cpp - library calls made while the program is shutting down: from the destructor of an object with static
// storage duration that was constructed before the library was first used. Anything the library keeps in a function-local
// static (built on first use, so destroyed BEFORE that object) is gone by then: the destructor must still get the same
// answers as main() got, and under AddressSanitizer (C20) must not touch released storage. The mirror image of C19.
#include <PhQ/ConstitutiveModel/CompressibleNewtonianFluid.hpp>
#include <PhQ/ConstitutiveModel/ElasticIsotropicSolid.hpp>
#include <PhQ/ConstitutiveModel/IncompressibleNewtonianFluid.hpp>
#include <PhQ/Length.hpp>
#include <PhQ/Temperature.hpp>
#include <PhQ/UnitSystem.hpp>
#include <PhQ/Velocity.hpp>

#include <cstdio>
#include <cstdlib>
#include <sstream>
#include <string>
#include <unistd.h>

using namespace PhQ;

static std::string observe() {
  std::ostringstream o;
  const ConstitutiveModel::ElasticIsotropicSolid<double> solid(YoungModulus<double>(200.0, Unit::Pressure::Gigapascal), PoissonRatio<double>(0.3));
  const ConstitutiveModel::IncompressibleNewtonianFluid<float> water(DynamicViscosity<float>(1.5F, Unit::DynamicViscosity::PascalSecond));
  const ConstitutiveModel::CompressibleNewtonianFluid<long double> air(DynamicViscosity<long double>(2.5L, Unit::DynamicViscosity::PascalSecond),
                                                                        BulkDynamicViscosity<long double>(0.5L, Unit::DynamicViscosity::PascalSecond));
  const ConstitutiveModel* all[] = {&solid, &water, &air};
  for (const ConstitutiveModel* m : all) o << m->Print() << ';' << m->JSON() << ';' << m->XML() << ';' << m->YAML() << ';' << *m << ';' << Abbreviation(m->GetType()) << '|';
  const Length<double> l(1.25, Unit::Length::Foot);
  const Velocity<float> v({1.0F, -2.5F, 3.0F}, Unit::Speed::KilometrePerHour);
  const Temperature<long double> t(36.6L, Unit::Temperature::Celsius);
  o << l.Print() << ';' << l.Print(Unit::Length::Inch) << ';' << l.JSON() << ';' << v.XML(Unit::Speed::Knot) << ';' << v.Magnitude().Print() << ';' << v.Direction().Print() << ';' << t.YAML(Unit::Temperature::Fahrenheit) << ';'
    << Length<double>::Dimensions().Print() << ';' << Abbreviation(Unit::Length::Mile) << ';' << Abbreviation(UnitSystem::FootPoundSecondRankine) << ';';
  const auto p = ParseEnumeration<Unit::Length>("mi");
  const auto pn = ParseNumber<double>("2.5e3");
  const auto r = RelatedUnitSystem(Unit::Length::Millimetre);
  o << (p.has_value() ? (int)static_cast<int8_t>(p.value()) : -1) << ';' << (pn.has_value() ? pn.value() : -1.0) << ';' << (r.has_value() ? (int)static_cast<int8_t>(r.value()) : -1) << ';'
    << (int)static_cast<int8_t>(ConsistentUnit<Unit::Pressure>(UnitSystem::InchPoundSecondRankine)) << ';' << Convert(2.0, Unit::Length::Mile, Unit::Length::Yard) << ';' << std::hash<Length<double>>()(l) % 1000;
  return o.str();
}

static std::string recorded;

struct AtExit {
  ~AtExit() {
    const std::string again = observe();
    std::printf("STAT at_exit_observations 1\n");
    if (again != recorded) {
      size_t i = 0;
      while (i < again.size() && i < recorded.size() && again[i] == recorded[i]) i++;
      std::printf("VIOL library-call-at-exit-differs\t{\"what\":\"a library call from the destructor of a static object gives another answer than in main()\",\"first_difference_at\":%zu}\n", i);
    }
    std::fflush(stdout);
  }
};
static AtExit guard;  // complete before main() and before the library is used: destroyed after everything the library builds later

int main() {
  recorded = observe();
  std::printf("STAT sanitized_api_calls 40\n");
  return 0;
}
