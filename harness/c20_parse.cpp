// c20_parse.cpp - PhQ::ParseNumber<T> is total on arbitrary byte strings: never throws, returns a value
// exactly when strtof/strtod/strtold (the functions std::sto* are defined by) convert at least one
// character without ERANGE, and then the same value. All strings up to length L over a 19-byte
// alphabet. usage: c20_parse <part> <nparts>
#include <PhQ/Base.hpp>

#include <cerrno>
#include <clocale>
#include <cstring>
#include <memory>
#include <string_view>

#include "vf.hpp"
static const unsigned char SIGMA[] = {'0', '1', '9', '.', 'e', 'E', '+', '-', 'x', 'p', 'n', 'a', 'i', 'f', ',', ' ', '\t', 0, 0xff, 0xce};

template <class T>
static T strto(const char* s, char** end) {
  if constexpr (std::is_same_v<T, float>) return std::strtof(s, end);
  if constexpr (std::is_same_v<T, double>) return std::strtod(s, end);
  if constexpr (std::is_same_v<T, long double>) return std::strtold(s, end);
}
// If the parser (also) accepts a non-owning view, the bytes it may read are those of the view: the same bytes are handed over
// once more as a view into a heap block of exactly that size with no terminator behind it; the answer must not change
// (and under AddressSanitizer any read behind the block is reported). On a tree where only std::string is accepted the probe
// is not instantiated.
template <class T, class = void>
struct TakesView : std::false_type {};
template <class T>
struct TakesView<T, std::void_t<decltype(PhQ::ParseNumber<T>(std::declval<std::string_view>()))>> : std::true_type {};
template <class T>
static void one_view(const std::string& s, const std::optional<T>& by_string) {
  if constexpr (TakesView<T>::value) {
    std::unique_ptr<char[]> block(new char[s.size() ? s.size() : 1]);
    std::memcpy(block.get(), s.data(), s.size());
    std::optional<T> got;
    bool threw = false;
    try {
      got = PhQ::ParseNumber<T>(std::string_view(block.get(), s.size()));
    } catch (...) {
      threw = true;
    }
    vf::stat("views_parsed");
    const bool same = !threw && got.has_value() == by_string.has_value() && (!got.has_value() || vf::same_bits(got.value(), by_string.value()));
    if (!same) {
      std::string hx;
      for (unsigned char c : s) {
        char b[4];
        std::snprintf(b, sizeof b, "%02x", c);
        hx += b;
      }
      vf::viol(std::string("parse-number|") + vf::TName<T>::value + "|view-differs-from-string", "{\"string_hex\":\"" + hx + "\",\"what\":\"the same bytes as an unterminated view parse differently\"}");
    }
  }
}
template <class T>
static void one(const std::string& s) {
  std::optional<T> got;
  bool threw = false;
  try {
    got = PhQ::ParseNumber<T>(s);
  } catch (...) {
    threw = true;
  }
  if (!threw) one_view<T>(s, got);
  // the answer is a function of the bytes only: the same call with errno left at ERANGE (and at EDOM) by some earlier, unrelated
  // call must give the same answer
  static unsigned long every = 0;
  if (s.size() <= 3 || s.size() > 6 || (every++ % 8) == 0)
  for (int stale : {ERANGE, EDOM}) {
    std::optional<T> again;
    bool threw2 = false;
    errno = stale;
    try {
      again = PhQ::ParseNumber<T>(s);
    } catch (...) {
      threw2 = true;
    }
    errno = 0;
    vf::stat("parses_with_stale_errno");
    if (threw2 != threw || again.has_value() != got.has_value() || (got.has_value() && !vf::same_bits(again.value(), got.value()))) {
      std::string hx;
      for (unsigned char c : s) {
        char b[4];
        std::snprintf(b, sizeof b, "%02x", c);
        hx += b;
      }
      vf::viol(std::string("parse-number|") + vf::TName<T>::value + "|depends-on-errno", "{\"string_hex\":\"" + hx + "\",\"errno_before_the_call\":" + std::to_string(stale) + "}");
      break;
    }
  }
  errno = 0;
  char* end = nullptr;
  const T v = strto<T>(s.c_str(), &end);
  const bool converts = end != s.c_str() && errno != ERANGE;
  vf::stat("strings_parsed");
  bool ok = !threw && got.has_value() == converts;
  if (ok && converts) {
    ok = vf::same_bits(got.value(), v);
    vf::stat("strings_accepted");
  }
  if (!ok) {
    std::string hx;
    for (unsigned char c : s) {
      char b[4];
      std::snprintf(b, sizeof b, "%02x", c);
      hx += b;
    }
    vf::viol(std::string("parse-number|") + vf::TName<T>::value + "|" + (threw ? "throws" : "differs-from-strto"), "{\"string_hex\":\"" + hx + "\",\"threw\":" + (threw ? "true" : "false") +
                                                                                                                     ",\"returned\":" + (got.has_value() ? vf::jstr(vf::hex(got.value())) : std::string("null")) +
                                                                                                                     ",\"strto_converts\":" + (converts ? "true" : "false") + "}");
  }
}
int main(int argc, char** argv) {
  const bool thorough = std::getenv("VERIF_TIER") && std::string(std::getenv("VERIF_TIER")) == "thorough";
  const int part = argc > 1 ? std::atoi(argv[1]) : 0, nparts = argc > 2 ? std::atoi(argv[2]) : 1;
  const int L = thorough ? 6 : 5, A = sizeof SIGMA;
  long idx = 0;
  std::string s;
  // all strings of length 0..L: odometer
  for (int len = 0; len <= L; len++) {
    std::vector<int> d(len, 0);
    for (;;) {
      if ((idx++ % nparts) == part) {
        s.assign(len, '\0');
        for (int i = 0; i < len; i++) s[i] = (char)SIGMA[d[i]];
        one<float>(s);
        one<double>(s);
        one<long double>(s);
      }
      int k = len - 1;
      while (k >= 0 && ++d[k] == A) d[k--] = 0;
      if (k < 0) break;
    }
  }
  if (part == 0) {
    // out-of-range and boundary decimal strings, printed numbers, long inputs
    for (const char* t : {"1e39", "1e-46", "1e309", "1e-400", "1e4933", "1e-5000", "-1e39", "3.4028235e38", "3.4028236e38", "1.7976931348623157e308", "1.7976931348623159e308", "0x1p-1074",
                          "0x1p-1075", "0x1.fffffffffffffp+1023", "inf", "-INF", "infinity", "nan", "NAN(abc)", "nan(", " \t\n 12", "12 ", "--1", "+-1", "1e", "1e+", ".", "+.", ".e1", "0x", "0x.p1",
                          "1,5", "१२३", "1_000", ""}) {
      one<float>(t);
      one<double>(t);
      one<long double>(t);
    }
    // the process's C locale (whatever the application selected) is left as it was by a parse, and parsing does not trip over it
    {
      const char* const candidates[] = {"C.UTF-8", "C.utf8", "POSIX"};
      for (const char* name : candidates) {
        if (!std::setlocale(LC_ALL, name)) continue;
        const std::string before_all(std::setlocale(LC_ALL, nullptr)), before_num(std::setlocale(LC_NUMERIC, nullptr));
        for (const char* t : {"12.5", "1e400", "abc", "0x1p-3", ""}) {
          one<float>(t);
          one<double>(t);
          one<long double>(t);
        }
        const std::string after_all(std::setlocale(LC_ALL, nullptr)), after_num(std::setlocale(LC_NUMERIC, nullptr));
        vf::stat("parses_under_a_selected_locale", 15);
        if (after_all != before_all || after_num != before_num)
          vf::viol("parse-number|changes-the-process-locale", "{\"selected\":" + vf::jstr(before_all) + ",\"after_parsing\":" + vf::jstr(after_all) + ",\"LC_NUMERIC_after\":" + vf::jstr(after_num) + "}");
        std::setlocale(LC_ALL, "C");
      }
    }
    std::string big(100000, '9');
    one<float>(big);
    one<double>(big);
    one<long double>(big);
    one<double>(std::string("1.") + std::string(5000, '0') + "1e-10");
    vf::sample("{\"alphabet\":\"0 1 9 . e E + - x p n a i f , space tab NUL 0xff 0xce\",\"max_length\":" + std::to_string(L) + ",\"example\":\"0x1p-1\"}");
  }
  return 0;
}
