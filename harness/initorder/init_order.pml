/* init_order.pml - the C++17 rules for initialisation of namespace-scope objects ([basic.start.static],
 * [basic.start.dynamic]) for the situation of property C19: NTU translation units include the library
 * headers; exactly one of them (USERPOS in link order) defines a user object U after the includes,
 * whose initialiser reads the library's tables; every TU's dynamic initialisation function runs the
 * TU's ordered objects in definition order (tables come from the headers, so they precede U).
 *
 * Library tables (inline variables, one instance per program, initialised by the first TU that
 * reaches them, behind a guard):
 *   T_ORD    explicit specialisations of inline variable templates (Abbreviations, Spellings,
 *            ConsistentUnits, RelatedUnitSystems): partially ordered - before everything defined later
 *            in every TU that defines them;
 *   T_DISP   the conversion dispatch table, whose class is extracted from the headers:
 *            DISPATCH_CLASS 0 = constant-initialised (literal type, constexpr constructor),
 *                           1 = partially ordered, 2 = unordered (implicitly instantiated
 *                           partial specialisation): may be initialised at any point of dynamic
 *                           initialisation, in particular after U.
 * Invariant (checked without OBS): U never reads a table that is not yet initialised.
 * With -DOBS=1 the model is forced to follow one observed execution (TU order = link order, the
 * outcome of U's reads = OBS_OK) and asserts false at the end of every run consistent with it, so
 * "errors: 1" means the observation is a behaviour of the model (trace validated).
 */
#ifndef NTU
#ifdef OBS_NTU
#define NTU OBS_NTU
#else
#define NTU 3
#endif
#endif
#ifndef DISPATCH_CLASS
#define DISPATCH_CLASS 0
#endif
#ifdef OBS_USERPOS
#define USERPOS OBS_USERPOS
#else
#define USERPOS 0
#endif

bool ord_init = false;      /* T_ORD constructed */
bool disp_init = false;     /* T_DISP constructed */
bool u_done = false;        /* the user object's initialiser has run */
bool u_ok = true;           /* all its table reads found constructed tables */
byte order[NTU];            /* TU initialisation order: order[k] = TU run k-th */
bool started[NTU];
byte step = 0;

inline init_unordered_maybe() {
  /* an unordered variable may be initialised at any point: now or later */
  if
  :: (DISPATCH_CLASS == 2 && !disp_init) -> disp_init = true
  :: true -> skip
  fi
}

inline run_tu(t) {
  /* ordered part of TU t, in definition order: tables from the headers first ... */
  init_unordered_maybe();
  if
  :: !ord_init -> ord_init = true
  :: else -> skip
  fi;
  if
  :: (DISPATCH_CLASS == 1 && !disp_init) -> disp_init = true
  :: else -> skip
  fi;
  init_unordered_maybe();
  /* ... then the user object, if this TU defines it */
  if
  :: (t == USERPOS) ->
       if
       :: !ord_init -> u_ok = false
       :: else -> skip
       fi;
       if
       :: !disp_init -> u_ok = false
       :: else -> skip
       fi;
       u_done = true
  :: else -> skip
  fi;
  init_unordered_maybe()
}

active proctype startup() {
  byte k = 0;
  byte t;
  /* static initialisation happens before any dynamic initialisation */
  if
  :: (DISPATCH_CLASS == 0) -> disp_init = true
  :: else -> skip
  fi;
  /* the order in which TUs are initialised is unspecified; both supported compilers use link order */
  do
  :: (k < NTU) ->
#ifdef OBS
       t = k;
#else
       if
       :: (NTU > 0 && !started[0]) -> t = 0
       :: (NTU > 1 && !started[1]) -> t = 1
       :: (NTU > 2 && !started[2]) -> t = 2
       fi;
#endif
       started[t] = true;
       order[k] = t;
       run_tu(t);
       k++
  :: (k == NTU) -> break
  od;
  /* every unordered variable is initialised before main() at the latest */
  if
  :: (DISPATCH_CLASS == 2 && !disp_init) -> disp_init = true
  :: else -> skip
  fi;
#ifdef OBS
  /* a complete run consistent with the observation exists iff this assertion is reachable */
  if
  :: (u_done && (u_ok == (OBS_OK == 1))) -> assert(false)
  :: else -> skip
  fi
#else
  assert(u_done);
  assert(u_ok)   /* the property: the user object saw fully constructed tables */
#endif
}
