// observe.hpp - what an object with static storage duration can observe of ONE enumeration type's
// facilities: every table-backed lookup for every enumerator (found by reflection), run-time
// conversion dispatch in three numeric types (scalar, container, constructor, accessor, printing),
// compile-time paths, comparison. Included after the library header(s) by generated TUs.
//   VF_E       the enumeration, e.g. PhQ::Unit::Length
//   VF_KIND    0 unit type, 1 unit system, 2 model type, 3 model type plus constitutive model objects (the three model headers included)
//   VF_Q       (unit types) a quantity class template measured in it, e.g. PhQ::Length; VF_NCOMP its components
#pragma once
#include <array>
#include <cctype>
#include <cstdio>
#include <sstream>
#include <string>
#include <type_traits>
#include <vector>

#include "reflect.hpp"

namespace obs {
using E = VF_E;
template <class T>
std::string num(T v) {
  char b[64];
  if constexpr (std::is_same_v<T, long double>)
    std::snprintf(b, sizeof b, "%La", v);
  else
    std::snprintf(b, sizeof b, "%a", (double)v);
  return b;
}
template <class X>
std::string show(const X& x) {
  if constexpr (std::is_floating_point_v<X>)
    return num(x);
  else
    return x.Print();
}
}  // namespace obs
// The library declares operator<<(ostream&, Unit::X) in namespace PhQ (not in PhQ::Unit, so argument-dependent lookup does not
// find it); a user streams units from code inside namespace PhQ or after `using namespace PhQ`. This helper lives in PhQ for that reason.
namespace PhQ::vf_obs {
template <class X, class = void>
struct Streams : std::false_type {};
template <class X>
struct Streams<X, std::void_t<decltype(std::declval<std::ostream&>() << std::declval<X>())>> : std::true_type {};
template <class X>
void stream_if(std::ostream& o, X u) {
  if constexpr (Streams<X>::value) o << u << ',';
}
}  // namespace PhQ::vf_obs
namespace obs {

#if VF_KIND == 0 && defined(VF_Q)
template <class T>
auto components() {
#if VF_NCOMP == 1
  return (T)1.25;
#else
  std::array<T, VF_NCOMP> a{};
  for (int i = 0; i < VF_NCOMP; i++) a[i] = (T)((i % 2 ? -1 : 1) * (1.25 + 1.125 * i));
#if VF_NCOMP == 2
  return PhQ::PlanarVector<T>(a);
#elif VF_NCOMP == 3
  return PhQ::Vector<T>(a);
#elif VF_NCOMP == 6
  return PhQ::SymmetricDyad<T>(a);
#else
  return PhQ::Dyad<T>(a);
#endif
#endif
}
template <class T>
struct StaticPaths {
  std::ostringstream* o;
  template <E u>
  void operator()() {
    const auto q = VF_Q<T>::template Create<u>(components<T>());
    *o << q.Print() << ';' << show(q.template StaticValue<u>()) << ';';
  }
};
#endif

#if VF_KIND == 0
template <class T>
void per_numeric_type(std::ostringstream& o) {
  for (const auto& en : vf::enumerators<E>()) {
    const E u = en.value;
    o << num(PhQ::Convert((T)1.25, u, PhQ::Standard<E>)) << ',' << num(PhQ::Convert((T)-3.5, PhQ::Standard<E>, u)) << ',';
    std::vector<T> v{(T)1, (T)2, (T)3};
    PhQ::ConvertInPlace(v, u, PhQ::Standard<E>);
    std::array<T, 2> a{(T)4, (T)5};
    PhQ::ConvertInPlace(a, PhQ::Standard<E>, u);
    o << num(v[2]) << ',' << num(a[1]) << ',';
#ifdef VF_Q
    const VF_Q<T> q(components<T>(), u);  // constructed from a value in a (generally non-standard) unit
    const VF_Q<T> r(components<T>(), PhQ::Standard<E>);
    o << show(q.Value()) << ',' << show(q.Value(u)) << ',' << q.Print() << ',' << q.Print(u) << ',' << q.JSON(u) << ',' << q.XML(u) << ',' << q.YAML(u) << ',' << (q < r) << (q == r)
      << (q >= r) << ',' << q.JSON() << ',' << q.XML() << ',' << q.YAML() << ',' << (int)static_cast<int8_t>(VF_Q<T>::Unit()) << ',' << std::hash<VF_Q<T>>()(q) % 997 << ',';
    std::ostringstream s;
    s << q;
    o << s.str() << ',';
#endif
  }
#ifdef VF_Q
  StaticPaths<T> sp{&o};
  vf::for_each_enumerator<E>(sp);
  o << VF_Q<T>::Dimensions().Print() << '|';
#endif
}
#endif

#if VF_KIND == 3
// constitutive model objects: every serialisation and the maps, through the class and through the abstract interface
template <class T>
void models(std::ostringstream& o) {
  using namespace PhQ;
  const ConstitutiveModel::ElasticIsotropicSolid<T> solid(YoungModulus<T>((T)200, Unit::Pressure::Gigapascal), PoissonRatio<T>((T)0.3));
  const ConstitutiveModel::IncompressibleNewtonianFluid<T> water(DynamicViscosity<T>((T)1.5, Unit::DynamicViscosity::PascalSecond));
  const ConstitutiveModel::CompressibleNewtonianFluid<T> air(DynamicViscosity<T>((T)2.5, Unit::DynamicViscosity::PascalSecond), BulkDynamicViscosity<T>((T)0.5, Unit::DynamicViscosity::PascalSecond));
  const ConstitutiveModel::CompressibleNewtonianFluid<T> air0(DynamicViscosity<T>((T)2.5, Unit::DynamicViscosity::PascalSecond));
  const Strain<T> eps((T)0.001, (T)0.002, (T)-0.001, (T)0.0005, (T)0, (T)0.003);
  const StrainRate<T> rate({(T)1, (T)2, (T)-1, (T)0.5, (T)0, (T)3}, Unit::Frequency::Hertz);
  o << solid.Print() << ';' << solid.JSON() << ';' << solid.XML() << ';' << solid.YAML() << ';' << solid << ';' << water.Print() << ';' << water.JSON() << ';' << water.XML() << ';' << water.YAML() << ';'
    << water << ';' << air.Print() << ';' << air.JSON() << ';' << air.XML() << ';' << air.YAML() << ';' << air << ';' << air0.JSON() << ';';
  const ConstitutiveModel* all[] = {&solid, &water, &air, &air0};
  for (const ConstitutiveModel* m : all) {
    o << (int)static_cast<int8_t>(m->GetType()) << ',' << Abbreviation(m->GetType()) << ',' << m->Print() << ',' << m->JSON() << ',' << m->XML() << ',' << m->YAML() << ',' << *m << ','
      << m->Stress(eps, rate).Print() << ',' << m->Strain(m->Stress(eps, rate)).JSON() << ',' << m->StrainRate(m->Stress(eps, rate)).YAML() << '|';
  }
}
#endif

inline std::string observe() {
  using namespace PhQ;
  std::ostringstream o;
  unsigned spell_digest = 7;
  for (const auto& en : vf::enumerators<E>()) {
    const E u = en.value;
    const std::string_view ab = PhQ::Abbreviation(u);
    o << ab << ',';
    PhQ::vf_obs::stream_if(o, u);
    const auto p = PhQ::ParseEnumeration<E>(ab);
    o << (p.has_value() ? (int)static_cast<int8_t>(p.value()) : -99) << ',';
#if VF_KIND == 0
    const auto rs = PhQ::RelatedUnitSystem(u);
    o << (rs.has_value() ? (int)static_cast<int8_t>(rs.value()) : -1) << ',';
#endif
  }
  o << (PhQ::ParseEnumeration<E>("no such spelling").has_value() ? "?" : "-") << '|';
  // every accepted spelling of the table, and its upper- and lower-case variants (whether or not those are accepted): what
  // they parse to must not depend on when the question is asked
  for (const auto& [spelling, value] : PhQ::Internal::Spellings<E>) {
    std::string up(spelling), lo(spelling);
    for (auto& c : up) c = (char)std::toupper((unsigned char)c);
    for (auto& c : lo) c = (char)std::tolower((unsigned char)c);
    unsigned acc = 0;
    for (const std::string& s : {std::string(spelling), up, lo}) {
      const auto p = PhQ::ParseEnumeration<E>(s);
      acc = acc * 131 + (unsigned)(p.has_value() ? (int)static_cast<int8_t>(p.value()) + 130 : 1);
    }
    spell_digest = spell_digest * 1000003u + acc + (unsigned)static_cast<int8_t>(value);
  }
  o << spell_digest << '|';
#if VF_KIND == 0
  for (const auto& s : vf::enumerators<PhQ::UnitSystem>()) o << (int)static_cast<int8_t>(PhQ::ConsistentUnit<E>(s.value)) << ',' << PhQ::Abbreviation(s.value) << ',';
  o << PhQ::RelatedDimensions<E>.Print() << '|';
  per_numeric_type<float>(o);
  per_numeric_type<double>(o);
  per_numeric_type<long double>(o);
#endif
#if VF_KIND == 3
  models<float>(o);
  models<double>(o);
  models<long double>(o);
#endif
  return o.str();
}
// FNV hash for compact reporting
inline unsigned long long digest(const std::string& s) {
  unsigned long long h = 1469598103934665603ULL;
  for (unsigned char c : s) {
    h ^= c;
    h *= 1099511628211ULL;
  }
  return h;
}
}  // namespace obs
