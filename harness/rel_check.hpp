// rel_check.hpp - E2 stage 2 run-time: generic checks applied to every discovered relation.
//   mode 3 (C03): dimensional homogeneity (static dimension arithmetic + dynamic rescaling)
//   mode 4 (C04): arithmetic is arithmetic on stored values (bitwise), constructor/operator twins
//   mode 5 (C05): inverse pairs
// Generated TUs include all quantity headers, then this file, then a list of item functions.
#pragma once
#include <cerrno>
#include <tuple>

#include "probe.hpp"

namespace rel {
using vf::f128;
static int MODE = 3;
static bool thorough = false;

template <class X, class = void>
struct IsQuantity : std::false_type {};
template <class X>
struct IsQuantity<X, std::void_t<decltype(std::declval<const X&>().Value()), decltype(X::Dimensions())>> : std::true_type {};
template <class X>
constexpr bool is_raw = vf::Shape<X>::n != 0;  // number, PlanarVector, Vector, SymmetricDyad, Dyad
template <class X>
constexpr bool checkable = IsQuantity<X>::value || is_raw<X>;

template <class X>
int dim(int i) {
  if constexpr (IsQuantity<X>::value) {
    const PhQ::Dimensions d = X::Dimensions();
    const int v[7] = {d.Time().Value(), d.Length().Value(), d.Mass().Value(), d.ElectricCurrent().Value(), d.Temperature().Value(), d.SubstanceAmount().Value(), d.LuminousIntensity().Value()};
    return v[i];
  } else {
    return 0;
  }
}
template <class X>
using numof = vf::num_t<X>;

template <class X>
X rebuild(const numof<X>* c) {
  if constexpr (is_raw<X>)
    return vf::RawMake<X>::make(c);
  else
    return vf::make<X>(c);
}
// value alphabet: slot-distinct, component-distinct, both signs (mode 3/4); positive grids (mode 5)
template <class X>
X operand(int slot, int variant) {
  using T = numof<X>;
  constexpr int n = vf::count_of<X>();
  static const long double base[5] = {1.25L, 0.4375L, 3.0625L, 0.15625L, 7.5L};
  static const long double mag[6] = {1.0L, 1.0L, 0.03125L, 24.0L, 1.0L, 0.001953125L};
  T c[9];
  for (int i = 0; i < 9; i++) {
    // the factor 4/3 gives every value a full-width mantissa in every numeric type (not representable in a narrower one)
    long double v = (base[(slot + variant) % 5] + 0.375L * i + 0.1L * slot) * mag[variant % 6] * (4.0L / 3.0L);
    bool neg = false;
    if (variant == 1) neg = (i + slot) % 2 == 1;
    if (variant == 3) neg = (i + slot) % 2 == 0;
    if (variant == 4) neg = true;
    c[i] = (T)(neg ? -v : v);
  }
  (void)n;
  return rebuild<X>(c);
}
// range variants for the bit-exact comparisons (mode 4): variant v >= 100 puts one operand at an end of T's range - subnormal
// or beyond the square root of the largest value - and leaves the other moderate. What the operator returns must still be,
// bit for bit, what the same arithmetic on the stored values returns (both sides overflow or underflow alike).
template <class X>
X ranged(const X& x, int shift) {
  if constexpr (vf::is_direction<X>) {
    return x;
  } else {
    numof<X> c[9];
    vf::comps(x, c);
    for (int i = 0; i < vf::count_of<X>(); i++) c[i] = std::ldexp(c[i], shift);
    return rebuild<X>(c);
  }
}
template <class A, class B>
std::pair<A, B> operands(int v) {
  if (v < 100) return {operand<A>(0, v), operand<B>(1, v)};
  if (v >= 200) {
    // the second operand a few units in the last place away from the first (same shapes only): a difference of nearly equal
    // stored values is still the exact difference
    const A a = operand<A>(0, 0);
    if constexpr (vf::count_of<A>() == vf::count_of<B>() && !vf::is_direction<A> && !vf::is_direction<B>) {
      numof<A> ca[9];
      numof<B> cb[9];
      vf::comps(a, ca);
      static const int away[4] = {1, 2, -3, 0};
      for (int i = 0; i < vf::count_of<A>(); i++) cb[i] = vf::step((numof<B>)ca[i], away[(v - 200 + i) % 4]);
      return {a, rebuild<B>(cb)};
    } else {
      return {a, operand<B>(1, 0)};
    }
  }
  using T = numof<A>;
  const int sub = std::numeric_limits<T>::min_exponent - 10, far = std::numeric_limits<T>::max_exponent / 2 + 3;
  const A a = operand<A>(0, 0);
  const B b = operand<B>(1, 0);
  switch (v - 100) {
    case 0: return {ranged(a, sub), b};
    case 1: return {a, ranged(b, sub)};
    case 2: return {ranged(a, far), b};
    case 3: return {a, ranged(b, far)};
    case 4: return {ranged(a, far), ranged(b, far)};
    default: return {ranged(a, sub), ranged(b, -far)};
  }
}
// positive magnitudes 2^e * m, component i scaled by (1 + i/16)
template <class X>
X positive_operand(int e, long double m) {
  using T = numof<X>;
  T c[9];
  for (int i = 0; i < 9; i++) c[i] = (T)std::ldexp(m * (1.0L + i / 16.0L) * (1.0L + 1.0L / 3072.0L), e);
  return rebuild<X>(c);
}
// every component equal to the given value (directions normalise it away)
template <class X>
X positive_operand_flat(long double value) {
  using T = numof<X>;
  T c[9];
  for (int i = 0; i < 9; i++) c[i] = (T)(value * (i == 0 ? 1.0L : 1.0L + i * 0.0625L));
  return rebuild<X>(c);
}
// rescaling s in 0..6: base unit s multiplied by 4; s == 7: all seven at once with different powers
template <class X>
X scaled(const X& x, int s) {
  using T = numof<X>;
  if constexpr (!IsQuantity<X>::value) {
    return x;
  } else if constexpr (vf::is_direction<X>) {
    return x;
  } else {
    int p = 0;
    if (s < 7) {
      p = dim<X>(s);
    } else if (s == 7) {
      for (int i = 0; i < 7; i++) p += dim<X>(i) * (i % 3 + 1) * (i % 2 ? -1 : 1);
    } else {
      // s == 8, 9: every base unit by 4^K resp. 4^-K - the same relation many orders of magnitude away
      const int K = std::is_same_v<T, float> ? 5 : 18;
      for (int i = 0; i < 7; i++) p += dim<X>(i) * (s == 8 ? K : -K);
    }
    T c[9];
    vf::comps(x, c);
    const T f = std::ldexp((T)1, 2 * p);
    for (int i = 0; i < vf::count_of<X>(); i++) c[i] *= f;
    return rebuild<X>(c);
  }
}
template <class X>
bool finite(const X& x) {
  numof<X> c[9];
  vf::comps(x, c);
  for (int i = 0; i < vf::count_of<X>(); i++)
    if (!std::isfinite(c[i])) return false;
  return true;
}
// every component finite and the largest one a normal number
template <class X>
bool normal(const X& x) {
  numof<X> c[9], m = 0;
  vf::comps(x, c);
  for (int i = 0; i < vf::count_of<X>(); i++) {
    if (!std::isfinite(c[i])) return false;
    m = std::fmax(m, std::fabs(c[i]));
  }
  return m >= std::numeric_limits<numof<X>>::min();
}
template <class X>
std::string show(const X& x) {
  return vf::comps_hex(x);
}
template <class... X>
std::string show_all(const X&... x) {
  std::string s = "[";
  int k = 0;
  ((s += (k++ ? "," : "") + show(x)), ...);
  return s + "]";
}
template <class X>
const char* tn() {
  return vf::TName<numof<X>>::value;
}

// ------------------------------------------------------------------ mode 3: homogeneity
// kind: '*', '/', '+', '-' for operators (static dimension arithmetic applies), 'c' constructor, 'm' member
template <class F, class... X, size_t... I>
void homogeneity_impl(const char* sig, char kind, F f, std::index_sequence<I...>) {
  using R = std::decay_t<std::invoke_result_t<F, const X&...>>;
  if constexpr (!checkable<R>) {
    return;
  } else {
    using T = numof<R>;
    const std::string key = std::string("homogeneity|") + sig + "|" + vf::TName<T>::value;
    // static: dimension arithmetic of the declared types
    if constexpr (sizeof...(X) == 2) {
      using A = std::tuple_element_t<0, std::tuple<X...>>;
      using B = std::tuple_element_t<1, std::tuple<X...>>;
      for (int i = 0; i < 7; i++) {
        int want = 0;
        bool applies = true;
        if (kind == '*')
          want = dim<A>(i) + dim<B>(i);
        else if (kind == '/')
          want = dim<A>(i) - dim<B>(i);
        else if (kind == '+' || kind == '-') {
          want = dim<A>(i);
          if (dim<A>(i) != dim<B>(i)) want = 999;
        } else
          applies = false;
        if (applies) {
          vf::stat("static_dimension_checks");
          if (dim<R>(i) != want) {
            vf::viol(key + "|static", std::string("{\"relation\":") + vf::jstr(sig) + ",\"base_dimension_index\":" + std::to_string(i) + ",\"result_exponent\":" + std::to_string(dim<R>(i)) +
                                          ",\"operand_exponents\":[" + std::to_string(dim<A>(i)) + "," + std::to_string(dim<B>(i)) + "]}");
            break;
          }
        }
      }
    }
    const int nv = thorough ? 6 : 3;
    for (int v = 0; v < nv; v++) {
      std::tuple<X...> args{operand<X>((int)I, v)...};
      const R r0 = f(std::get<I>(args)...);
      if (!finite(r0)) {
        vf::stat("skipped_nonfinite");
        continue;
      }
      if (v == 0) {
        // the value category of the operands does not matter: temporaries give what the named objects give (an overload taking
        // rvalues - a "move" constructor from other quantities - must compute the same)
        const R rt = f(X(std::get<I>(args))...);
        T a0[9], a1[9];
        vf::comps(r0, a0);
        vf::comps(rt, a1);
        vf::stat("temporary_operand_evaluations");
        // ... and neither does what an unrelated earlier call left in errno
        for (int stale : {EDOM, ERANGE}) {
          errno = stale;
          const R re = f(std::get<I>(args)...);
          errno = 0;
          T a2[9];
          vf::comps(re, a2);
          for (int i = 0; i < vf::count_of<R>(); i++)
            if (!vf::same_bits(a0[i], a2[i])) {
              vf::viol(key + "|errno", std::string("{\"relation\":") + vf::jstr(sig) + ",\"operands\":" + show_all(std::get<I>(args)...) + ",\"result\":" + show(r0) +
                                         ",\"result_with_errno_left_at_" + std::to_string(stale) + "\":" + show(re) + "}");
              return;
            }
        }
        for (int i = 0; i < vf::count_of<R>(); i++)
          if (!vf::same_bits(a0[i], a1[i])) {
            vf::viol(key + "|temporaries", std::string("{\"relation\":") + vf::jstr(sig) + ",\"operands\":" + show_all(std::get<I>(args)...) + ",\"result_of_named_operands\":" + show(r0) +
                                               ",\"result_of_temporary_operands\":" + show(rt) + "}");
            return;
          }
      }
      for (int s = 0; s < 10; s++) {
        if (s == 7 && !thorough && v) continue;
        const R rs = f(scaled(std::get<I>(args), s)...);
        const R want = scaled(r0, s);
        if (s >= 8 && (!finite(rs) || !finite(want))) {
          vf::stat("skipped_nonfinite");
          continue;
        }
        T a[9], b[9];
        vf::comps(rs, a);
        vf::comps(want, b);
        vf::stat("rescaling_evaluations");
        for (int i = 0; i < vf::count_of<R>(); i++) {
          const double u = vf::ulps<T>(a[i], (f128)b[i]);
          if (!(u <= 4.0)) {
            vf::viol(key + "|rescaling", std::string("{\"relation\":") + vf::jstr(sig) + ",\"numeric_type\":" + vf::jstr(vf::TName<T>::value) + ",\"rescaled_base_dimension\":" +
                                             std::to_string(s) + ",\"operands\":" + show_all(std::get<I>(args)...) + ",\"result\":" + show(r0) + ",\"result_of_rescaled_operands\":" +
                                             show(rs) + ",\"rescaled_result\":" + show(want) + "}");
            return;
          }
        }
      }
    }
    vf::stat("relations_checked");
  }
}
template <class... X, class F>
void homogeneity(const char* sig, char kind, F f) {
  if constexpr (std::is_invocable_v<F, const X&...>) {
    homogeneity_impl<F, X...>(sig, kind, f, std::index_sequence_for<X...>{});
  } else {
    vf::stat("candidates_not_callable");
  }
}

// ------------------------------------------------------------------ mode 4: exact arithmetic on stored values
template <class X>
decltype(auto) raw(const X& x) {
  if constexpr (IsQuantity<X>::value)
    return x.Value();
  else
    return (x);
}
#define REL_RAWOP(NAME, OP)                                                                              \
  template <class A, class B, class = void>                                                              \
  struct NAME : std::false_type {};                                                                      \
  template <class A, class B>                                                                            \
  struct NAME<A, B, std::void_t<decltype(raw(std::declval<const A&>()) OP raw(std::declval<const B&>()))>> : std::true_type { \
    using type = std::decay_t<decltype(raw(std::declval<const A&>()) OP raw(std::declval<const B&>()))>; \
  };
REL_RAWOP(RawAdd, +)
REL_RAWOP(RawSub, -)
REL_RAWOP(RawMul, *)
REL_RAWOP(RawDiv, /)

template <class A, class B, class F, class G, class H>
void exact_op(const char* sig, char op, F f, G rawf, bool raw_applies, H tmpf) {
  using R = std::decay_t<std::invoke_result_t<F, const A&, const B&>>;
  if constexpr (!checkable<R>) {
    return;
  } else {
    using T = numof<R>;
    const int nv = thorough ? 6 : 5;
    for (int v = 0; v < 204; v++) {
      if (v == nv) v = 100;
      if (v == 106) v = 200;
      const auto [a, b] = operands<A, B>(v);
      const R r = f(a, b);
      vf::stat("operator_evaluations");
      if (v == 0 || v == 2) {
        // every value category of the operands: named objects, temporaries, and one of each
        T x0[9];
        vf::comps(r, x0);
        for (int which = 1; which <= 3; which++) {
          const R rt = tmpf(a, b, which);
          T x1[9];
          vf::comps(rt, x1);
          for (int i = 0; i < vf::count_of<R>(); i++)
            if (!vf::same_bits(x0[i], x1[i])) {
              vf::viol(std::string("exact|") + sig + "|" + vf::TName<T>::value + "|temporaries", std::string("{\"relation\":") + vf::jstr(sig) + ",\"operands\":" + show_all(a, b) + ",\"result_of_named_operands\":" + show(r) +
                                                                                                     ",\"result_with_temporaries\":" + show(rt) + ",\"which\":" + std::to_string(which) + "}");
              return;
            }
        }
      }
      if (raw_applies) {
        const auto rr = rawf(a, b);
        T x[9], y[9];
        vf::comps(r, x);
        vf::comps(rr, y);
        for (int i = 0; i < vf::count_of<R>(); i++)
          if (!vf::same_bits(x[i], y[i])) {
            vf::viol(std::string("exact|") + sig + "|" + vf::TName<T>::value, std::string("{\"relation\":") + vf::jstr(sig) + ",\"operands\":" + show_all(a, b) + ",\"result\":" + show(r) +
                                                                                  ",\"stored_values_combined\":" + show(rr) + ",\"component\":" + std::to_string(i) + "}");
            return;
          }
      }
    }
    vf::stat(raw_applies ? "operators_checked_against_stored_values" : "operators_definitional");
    if (!raw_applies) vf::setadd("definitional_operators", std::string(sig));
  }
}
// constructor twin: C(a, b) (or C(b, a)) must be bit-identical to a op b
template <class A, class B, class F, class G>
void twin(const char* sig, F opf, G ctorf) {
  using R = std::decay_t<std::invoke_result_t<F, const A&, const B&>>;
  using T = numof<R>;
  const int nv = thorough ? 6 : 5;
  for (int v = 0; v < 106; v++) {
    if (v == nv) v = 100;
    const auto [a, b] = operands<A, B>(v);
    const R r1 = opf(a, b);
    const R r2 = ctorf(a, b);
    T x[9], y[9];
    vf::comps(r1, x);
    vf::comps(r2, y);
    vf::stat("twin_evaluations");
    for (int i = 0; i < vf::count_of<R>(); i++)
      if (!vf::same_bits(x[i], y[i])) {
        vf::viol(std::string("twin|") + sig + "|" + vf::TName<T>::value, std::string("{\"relation\":") + vf::jstr(sig) + ",\"operands\":" + show_all(a, b) + ",\"operator_result\":" + show(r1) +
                                                                             ",\"constructor_result\":" + show(r2) + "}");
        return;
      }
  }
  vf::stat("twins_checked");
}

// one component of x moved by d units in the last place
template <class X>
X nudged(const X& x, int comp, int d) {
  numof<X> c[9];
  vf::comps(x, c);
  c[comp] = vf::step(c[comp], d);
  return rebuild<X>(c);
}

// ------------------------------------------------------------------ mode 6: member functions vs their constructor twins
// c.Name(a, b) and Name(c, a, b) (in the constructor's argument order) are two spellings of one named definition: they must give
// the same quantity. Accepted difference: the largest change of the constructor's result when any one input component moves by
// +-1, +-2, +-4 ulp, floored at 4 ulp of the result (on this tree the members forward to the constructors: 0 observed).
template <class F, class G, class... X, size_t... I>
void member_twin_impl(const char* sig, F member, G ctor, std::index_sequence<I...>) {
  using R = std::decay_t<std::invoke_result_t<F, const X&...>>;
  if constexpr (!checkable<R>) {
    return;
  } else {
    using T = numof<R>;
    constexpr int nr = vf::count_of<R>();
    const int nv = thorough ? 6 : 4;
    double worst = 0;
    for (int v = 0; v < nv; v++) {
      std::tuple<X...> args{operand<X>((int)I, v)...};
      const R m = member(std::get<I>(args)...);
      const R c = ctor(std::get<I>(args)...);
      if (!finite(c)) {
        vf::stat("skipped_nonfinite");
        continue;
      }
      T x[9], y[9];
      vf::comps(m, x);
      vf::comps(c, y);
      f128 cmax = 0, tol[9];
      for (int i = 0; i < nr; i++) cmax = fmaxq(cmax, fabsq((f128)y[i]));
      for (int i = 0; i < nr; i++) tol[i] = 4 * vf::ulp_at<T>(cmax);
      auto absorb = [&](const R& alt) {
        if (!finite(alt)) return;
        T z[9];
        vf::comps(alt, z);
        for (int i = 0; i < nr; i++) tol[i] = fmaxq(tol[i], fabsq((f128)z[i] - (f128)y[i]));
      };
      // nudge one component of one argument at a time
      auto nudge_arg = [&](auto index) {
        constexpr size_t J = decltype(index)::value;
        using XJ = std::tuple_element_t<J, std::tuple<X...>>;
        if constexpr (!vf::is_direction<XJ>) {
          for (int k = 0; k < vf::count_of<XJ>(); k++)
            for (int d : {-4, -2, -1, 1, 2, 4}) {
              std::tuple<X...> alt = args;
              std::get<J>(alt) = nudged(std::get<J>(args), k, d);
              absorb(ctor(std::get<I>(alt)...));
            }
        }
      };
      (nudge_arg(std::integral_constant<size_t, I>{}), ...);
      vf::stat("member_twin_evaluations");
      for (int i = 0; i < nr; i++) {
        const double r = (double)(fabsq((f128)x[i] - (f128)y[i]) / tol[i]);
        if (r > worst) worst = r;
        if (!(r <= 1.0)) {
          vf::viol(std::string("member-twin|") + sig + "|" + vf::TName<T>::value, std::string("{\"pair\":") + vf::jstr(sig) + ",\"operands\":" + show_all(std::get<I>(args)...) + ",\"member_result\":" + show(m) +
                                                                                      ",\"constructor_result\":" + show(c) + ",\"difference_over_tolerance\":" + std::to_string(r) + "}");
          return;
        }
      }
    }
    vf::maxf(std::string("max_member_twin_difference_over_tolerance_") + vf::TName<T>::value, worst);
    vf::stat("member_twins_checked");
  }
}
template <class... X, class F, class G>
void member_twin(const char* sig, F member, G ctor) {
  if constexpr (std::is_invocable_v<F, const X&...> && std::is_invocable_v<G, const X&...>) {
    member_twin_impl<F, G, X...>(sig, member, ctor, std::index_sequence_for<X...>{});
  } else {
    vf::stat("candidates_not_callable");
  }
}

// ------------------------------------------------------------------ mode 5: inverse pairs
// a' = g(f(a, b), b) must return a. The formulas are unknown to the harness: the accepted error is
// the largest change of g's result when any component of the ROUNDED intermediate c = f(a,b) is moved
// by +-1, +-2, +-4 ulps (one at a time), floored at 8 ulps of |a|_inf (DESIGN R3). b is an exact input
// shared by both directions and is not perturbed: an error that grows with the conditioning in b
// (x - 1 for x next to one, say) is the relation's own, not the input's.
template <class A, class B, class F, class G>
void inverse2(const char* sig, F f, G g) {
  using C = std::decay_t<std::invoke_result_t<F, const A&, const B&>>;
  using T = numof<A>;
  constexpr int na = vf::count_of<A>();
  // Decided domain: moderate magnitudes in every combination (2^-20..2^20 for float, 2^-40..2^40 otherwise, full mantissas).
  // Thorough tier, for information only (no verdict): one operand at a time at the ends of T's range - a subnormal value, a
  // value whose square underflows, a value whose square overflows. There the unchanged library itself departs in some twenty
  // pairs for reasons inherent to a finite range (gamma/(gamma-1) cancelling, sqrt(K/rho) with K/rho outside the range), so
  // no verdict that is both sound and specific exists; the departures are counted and named in the evidence.
  const int sub = std::numeric_limits<T>::min_exponent - 12, far = std::numeric_limits<T>::max_exponent / 2 + 2;
  const std::vector<int> mod = std::is_same_v<T, float> ? std::vector<int>{-20, -12, -1, 0, 3, 17, 20} : std::vector<int>{-40, -12, -1, 0, 3, 17, 40};
  std::vector<std::pair<int, int>> grid;
  for (int ea : mod)
    for (int eb : mod) grid.push_back({ea, eb});
  if (thorough)
    for (int x : {sub, -far, far})
      for (int m : {-12, 0, 17}) {
        grid.push_back({x, m});
        grid.push_back({m, x});
      }
  bool departed = false;
  // special points: operands whose product or quotient lands next to a whole number (3 + 4e-10, 6 + 7e-10, ...), where a
  // "snap to the nearest integer" clean-up would sit; encoded as negative grid indices handled below
  const std::pair<long double, long double> special[] = {{1.0L, 3.0L + 4e-10L}, {3.0L + 4e-10L, 1.0L}, {0.5L, 6.0L + 7e-10L}, {2.0L, 1.5L + 2e-10L}, {7.0L - 3e-10L, 1.0L},
                                                          {12.0L + 9e-10L, 4.0L}, {1.0L, 1.0L + 5e-10L}, {250.0L + 6e-10L, 0.25L}};
  for (const auto& sp : special) {
    const A a = positive_operand_flat<A>(sp.first);
    const B b = positive_operand_flat<B>(sp.second);
    const C c = f(a, b);
    if (!finite(c)) continue;
    const A back = g(c, b);
    if (!finite(back)) continue;
    T x[9], y[9];
    vf::comps(a, x);
    vf::comps(back, y);
    f128 amax = 0;
    for (int i = 0; i < na; i++) amax = fmaxq(amax, fabsq((f128)x[i]));
    f128 tol[9];
    for (int i = 0; i < na; i++) tol[i] = 8 * vf::ulp_at<T>(amax);
    for (int d : {-4, -2, -1, 1, 2, 4})
      for (int k = 0; k < vf::count_of<C>(); k++) {
        const A alt = g(nudged(c, k, d), b);
        if (!finite(alt)) continue;
        T z[9];
        vf::comps(alt, z);
        for (int i = 0; i < na; i++) tol[i] = fmaxq(tol[i], fabsq((f128)z[i] - (f128)y[i]));
      }
    vf::stat("round_trips");
    for (int i = 0; i < na; i++)
      if (!((double)(fabsq((f128)y[i] - (f128)x[i]) / tol[i]) <= 1.0)) {
        vf::viol(std::string("inverse|") + sig + "|" + vf::TName<T>::value, std::string("{\"pair\":") + vf::jstr(sig) + ",\"a\":" + show(a) + ",\"b\":" + show(b) + ",\"c=f(a,b)\":" + show(c) +
                                                                                 ",\"g(c,b)\":" + show(back) + ",\"near_whole_number_point\":true}");
        return;
      }
  }
  const long double ms[] = {1.0L, 1.375L, 1.9L, 1.0078125L / 1.09375L};  // the last one puts the second operand next to 1 (a ratio near one: cancellation in x - 1)
  double worst = 0;
  for (auto [ea, eb] : grid)
    for (long double ma : ms)
      for (long double mb : ms)
        {
          const bool extreme = ea == sub || eb == sub || ea == far || eb == far || ea == -far || eb == -far;
          if (!thorough && !(mb == 1.375L || (mb == ms[3] && ma == 1.9L) || (ma == 1.0L && eb == ea))) continue;
          const A a = positive_operand<A>(ea, ma);
          const B b = positive_operand<B>(eb, mb * 1.09375L);
          const C c = f(a, b);
          if (!finite(c) || (extreme && !normal(c))) {
            vf::stat("skipped_nonfinite");
            continue;
          }
          const A back = g(c, b);
          if (!finite(back) && !extreme) {
            vf::stat("skipped_nonfinite");
            continue;
          }
          if (extreme) vf::stat("range_end_round_trips_information_only");
          T x[9], y[9];
          vf::comps(a, x);
          vf::comps(back, y);
          f128 tol[9];
          f128 amax = 0;
          for (int i = 0; i < na; i++) amax = fmaxq(amax, fabsq((f128)x[i]));
          for (int i = 0; i < na; i++) tol[i] = 8 * vf::ulp_at<T>(amax);
          auto absorb = [&](const A& alt) {
            if (!finite(alt)) return;
            T z[9];
            vf::comps(alt, z);
            for (int i = 0; i < na; i++) tol[i] = fmaxq(tol[i], fabsq((f128)z[i] - (f128)y[i]));
          };
          for (int d : {-4, -2, -1, 1, 2, 4}) {
            for (int k = 0; k < vf::count_of<C>(); k++) absorb(g(nudged(c, k, d), b));

          }
          if (!extreme) vf::stat("round_trips");
          for (int i = 0; i < na; i++) {
            const double r = (double)(fabsq((f128)y[i] - (f128)x[i]) / tol[i]);
            if (extreme) {
              if (!(r <= 1.0) && !departed) {
                departed = true;
                vf::stat("range_end_departures_information_only");
                vf::setadd("pairs_departing_at_range_ends", std::string(sig) + " [" + vf::TName<T>::value + "]");
              }
              continue;
            }
            if (r > worst) worst = r;
            if (!(r <= 1.0)) {
              vf::viol(std::string("inverse|") + sig + "|" + vf::TName<T>::value, std::string("{\"pair\":") + vf::jstr(sig) + ",\"a\":" + show(a) + ",\"b\":" + show(b) + ",\"c=f(a,b)\":" + show(c) +
                                                                                       ",\"g(c,b)\":" + show(back) + ",\"error_over_tolerance\":" + std::to_string(r) + "}");
              return;
            }
          }
        }
  vf::maxf(std::string("max_inverse_error_over_tolerance_") + vf::TName<T>::value, worst);
  vf::stat("inverse_pairs_checked");
}
template <class A, class F, class G>
void inverse1(const char* sig, F f, G g) {
  using C = std::decay_t<std::invoke_result_t<F, const A&>>;
  using T = numof<A>;
  constexpr int na = vf::count_of<A>();
  if constexpr (vf::count_of<C>() < na) {
    return;  // only the direction starting from the smaller shape is an identity (lossless embedding)
  } else {
    const int sub = std::numeric_limits<T>::min_exponent - 12, far = std::numeric_limits<T>::max_exponent / 2 + 2;
    const std::vector<int> es = std::is_same_v<T, float> ? std::vector<int>{-20, -12, -1, 0, 3, 17, 20} : std::vector<int>{-40, -12, -1, 0, 3, 17, 40};
    double worst = 0;
    for (int ea : es)
      for (long double ma : {1.0L, 1.375L, 1.9L}) {
        const A a = positive_operand<A>(ea, ma);
        const bool extreme = ea == sub || ea == far || ea == -far;
        const C c = f(a);
        if (!finite(c) || (extreme && !normal(c))) continue;
        const A back = g(c);
        if (!finite(back) && !extreme) continue;
        if (extreme) vf::stat("round_trips_at_range_ends");
        T x[9], y[9];
        vf::comps(a, x);
        vf::comps(back, y);
        f128 tol[9], amax = 0;
        for (int i = 0; i < na; i++) amax = fmaxq(amax, fabsq((f128)x[i]));
        for (int i = 0; i < na; i++) tol[i] = 4 * vf::ulp_at<T>(amax);
        for (int d : {-4, -2, -1, 1, 2, 4})
          for (int k = 0; k < vf::count_of<C>(); k++) {
            const A alt = g(nudged(c, k, d));
            if (!finite(alt)) continue;
            T z[9];
            vf::comps(alt, z);
            for (int i = 0; i < na; i++) tol[i] = fmaxq(tol[i], fabsq((f128)z[i] - (f128)y[i]));
          }
        vf::stat("round_trips");
        for (int i = 0; i < na; i++) {
          const double r = (double)(fabsq((f128)y[i] - (f128)x[i]) / tol[i]);
          if (r > worst) worst = r;
          if (!(r <= 1.0)) {
            vf::viol(std::string("inverse|") + sig + "|" + vf::TName<T>::value + (extreme ? "|range-end" : ""),
                     std::string("{\"pair\":") + vf::jstr(sig) + ",\"a\":" + show(a) + ",\"c=f(a)\":" + show(c) + ",\"g(c)\":" + show(back) + ",\"error_over_tolerance\":" + std::to_string(r) + "}");
            return;
          }
        }
      }
    vf::maxf(std::string("max_inverse_error_over_tolerance_") + vf::TName<T>::value, worst);
    vf::stat("inverse_pairs_checked");
  }
}
}  // namespace rel
