// rel_discover.hpp - E2 stage 1: which relations exist, as the compiler sees them (numeric type double;
// the class templates are uniform in it). Included by generated TUs that define the per-class
// candidate lists. Prints one line per relation found.
#pragma once
#include <iostream>

#include "probe.hpp"

namespace rd {
using T = double;
template <class X>
std::string tname() {
  std::string_view s = __PRETTY_FUNCTION__;
  auto p = s.rfind("X = ");
  auto t = s.substr(p + 4);
  auto e = t.find_first_of(";]");
  t = t.substr(0, e);
  if (t == "double") return "number";
  auto lt = t.find('<');
  std::string_view head = t.substr(0, lt);
  auto c = head.rfind("::");
  std::string r(c == head.npos ? head : head.substr(c + 2));
  if (t.substr(0, 12) == "std::optiona") return "optional";
  return r;
}
#define RD_OP(NAME, OP)                                                                                      \
  template <class A, class B, class = void>                                                                  \
  struct NAME : std::false_type {};                                                                          \
  template <class A, class B>                                                                                \
  struct NAME<A, B, std::void_t<decltype(std::declval<const A&>() OP std::declval<const B&>())>> : std::true_type { \
    using type = std::decay_t<decltype(std::declval<const A&>() OP std::declval<const B&>())>;               \
  };
RD_OP(HasAdd, +)
RD_OP(HasSub, -)
RD_OP(HasMul, *)
RD_OP(HasDiv, /)
#define RD_CA(NAME, OP)                                                                            \
  template <class A, class B, class = void>                                                        \
  struct NAME : std::false_type {};                                                                \
  template <class A, class B>                                                                      \
  struct NAME<A, B, std::void_t<decltype(std::declval<A&>() OP std::declval<const B&>())>> : std::true_type {};
RD_CA(HasAddEq, +=)
RD_CA(HasSubEq, -=)
RD_CA(HasMulEq, *=)
RD_CA(HasDivEq, /=)

template <class A, class B>
void ops(const char* an, const char* bn) {
  if constexpr (HasAdd<A, B>::value) std::cout << "OP " << an << " + " << bn << " " << tname<typename HasAdd<A, B>::type>() << "\n";
  if constexpr (HasSub<A, B>::value) std::cout << "OP " << an << " - " << bn << " " << tname<typename HasSub<A, B>::type>() << "\n";
  if constexpr (HasMul<A, B>::value) std::cout << "OP " << an << " * " << bn << " " << tname<typename HasMul<A, B>::type>() << "\n";
  if constexpr (HasDiv<A, B>::value) std::cout << "OP " << an << " / " << bn << " " << tname<typename HasDiv<A, B>::type>() << "\n";
  if constexpr (!std::is_floating_point_v<A>) {
    if constexpr (HasAddEq<A, B>::value) std::cout << "CA " << an << " += " << bn << "\n";
    if constexpr (HasSubEq<A, B>::value) std::cout << "CA " << an << " -= " << bn << "\n";
    if constexpr (HasMulEq<A, B>::value) std::cout << "CA " << an << " *= " << bn << "\n";
    if constexpr (HasDivEq<A, B>::value) std::cout << "CA " << an << " /= " << bn << "\n";
  }
}
template <class C, class A>
void ctor1(const char* cn, const char* an) {
  if constexpr (!std::is_same_v<C, A> && std::is_constructible_v<C, vf::Exactly<A>>) std::cout << "CTOR " << cn << " " << an << "\n";
}
template <class C, class A, class B>
void ctor2(const char* cn, const char* an, const char* bn) {
  if constexpr (std::is_constructible_v<C, vf::Exactly<A>, vf::Exactly<B>>) std::cout << "CTOR " << cn << " " << an << " " << bn << "\n";
}
template <class C, class A, class B, class D>
void ctor3(const char* cn, const char* an, const char* bn, const char* dn) {
  if constexpr (std::is_constructible_v<C, vf::Exactly<A>, vf::Exactly<B>, vf::Exactly<D>>) std::cout << "CTOR " << cn << " " << an << " " << bn << " " << dn << "\n";
}
template <class C, class A, class B, class D, class E>
void ctor4(const char* cn, const char* an, const char* bn, const char* dn, const char* en) {
  if constexpr (std::is_constructible_v<C, vf::Exactly<A>, vf::Exactly<B>, vf::Exactly<D>, vf::Exactly<E>>)
    std::cout << "CTOR " << cn << " " << an << " " << bn << " " << dn << " " << en << "\n";
}
template <class C, class F>
void member0(const char* cn, const char* mn, F f) {
  if constexpr (std::is_invocable_v<F, const C&>) std::cout << "MEM " << cn << " " << mn << " -> " << tname<std::decay_t<std::invoke_result_t<F, const C&>>>() << "\n";
}
template <class C, class A, class F>
void member1(const char* cn, const char* mn, const char* an, F f) {
  if constexpr (std::is_invocable_v<F, const C&, const A&>)
    std::cout << "MEM " << cn << " " << mn << " " << an << " -> " << tname<std::decay_t<std::invoke_result_t<F, const C&, const A&>>>() << "\n";
}
template <class C, class... A, class F>
void memberN(const char* cn, const char* mn, const char* an, F f) {
  if constexpr (std::is_invocable_v<F, const C&, const A&...>)
    std::cout << "MEM " << cn << " " << mn << " " << an << " -> " << tname<std::decay_t<std::invoke_result_t<F, const C&, const A&...>>>() << "\n";
}
}  // namespace rd
