// threads_tsan.cpp - the library's const interface called from two threads at once, free-running under ThreadSanitizer.
// The exhaustive checks call the library from one thread (or from threads one after another); this pass keeps races visible:
// any shared mutable state behind a const function (a function-local static buffer, a memo, a lazily filled table) is a
// data race here, reported by the sanitizer whatever the actual timing, and usually also a wrong result, reported by the
// comparison with the single-threaded expectation computed before the threads start.
// usage: threads_tsan <print|all>      print: printing and serialisation only (C15); all: also lookups, conversions, models (C20)
#include <PhQ/Angle.hpp>
#include <PhQ/ConstitutiveModel/ElasticIsotropicSolid.hpp>
#include <PhQ/Length.hpp>
#include <PhQ/Stress.hpp>
#include <PhQ/UnitSystem.hpp>
#include <PhQ/Velocity.hpp>
#include <PhQ/VelocityGradient.hpp>

#include <atomic>
#include <sstream>
#include <thread>

#include "reflect.hpp"
#include "vf.hpp"
using namespace PhQ;

template <class T>
static void printing(int who, std::vector<std::string>& o) {
  const T a = (T)(who ? -0.00123456789012345678L : 7.77777777777777777e-5L), b = (T)(who ? 12345.678901234567L : 0.5L);
  o.push_back(PhQ::Print(a));
  o.push_back(PhQ::Print(b));
  o.push_back(Vector<T>(a, b, (T)3).Print());
  o.push_back(Dyad<T>(a, b, 1, 2, 3, 4, 5, 6, 7).JSON());
  const Length<T> l(b, Unit::Length::Foot);
  o.push_back(l.Print());
  o.push_back(l.Print(Unit::Length::Inch));
  o.push_back(l.JSON());
  o.push_back(l.XML(Unit::Length::Mile));
  o.push_back(l.YAML());
  const Velocity<T> v({a, b, (T)-2}, Unit::Speed::KilometrePerHour);
  o.push_back(v.Print());
  o.push_back(v.JSON(Unit::Speed::Knot));
  const Stress<T> s({a, b, 1, 2, 3, 4}, Unit::Pressure::PoundPerSquareInch);
  o.push_back(s.XML());
  const VelocityGradient<T> g({a, b, 1, 2, 3, 4, 5, 6, 7}, Unit::Frequency::Hertz);
  o.push_back(g.YAML());
  std::ostringstream os;
  os << l << ';' << v << ';' << s << ';' << g << ';' << Vector<T>(a, b, 1) << ';' << Unit::Length::Yard << ';' << RelatedDimensions<Unit::Pressure>;
  o.push_back(os.str());
}
template <class T>
static void everything_else(int who, std::vector<std::string>& o) {
  std::ostringstream os;
  for (const auto& e : vf::enumerators<Unit::Length>()) {
    os << Abbreviation(e.value) << ',';
    const auto p = ParseEnumeration<Unit::Length>(Abbreviation(e.value));
    os << (p.has_value() ? (int)static_cast<int8_t>(p.value()) : -99) << ',';
    const auto r = RelatedUnitSystem(e.value);
    os << (r.has_value() ? (int)static_cast<int8_t>(r.value()) : -1) << ',' << vf::hex(Convert((T)(1.25 + who), e.value, Unit::Length::Metre)) << ';';
  }
  for (const auto& s : vf::enumerators<UnitSystem>())
    os << (int)static_cast<int8_t>(ConsistentUnit<Unit::Pressure>(s.value)) << ',' << (int)static_cast<int8_t>(ConsistentUnit<Unit::Length>(s.value)) << ',' << Abbreviation(s.value) << ';';
  os << (ParseEnumeration<UnitSystem>("no such system").has_value() ? "?" : "-") << ';';
  std::vector<T> many(257, (T)(who + 1));
  ConvertInPlace(many, Unit::Length::Mile, Unit::Length::Millimetre);
  os << vf::hex(many[256]) << ';' << vf::hex(ConvertStatically<Unit::Length, Unit::Length::Inch, Unit::Length::Foot>((T)(3 + who))) << ';';
  const Velocity<T> v({(T)1, (T)(2 + who), (T)-2}, Unit::Speed::MetrePerSecond), w({(T)-3, (T)1, (T)who}, Unit::Speed::MetrePerSecond);
  os << Angle<T>(v, w).Print() << ';' << v.Magnitude().Print() << ';' << v.Direction().Print() << ';';
  const ConstitutiveModel::ElasticIsotropicSolid<T> solid(YoungModulus<T>((T)(200 + who), Unit::Pressure::Gigapascal), PoissonRatio<T>((T)0.3));
  const Strain<T> eps((T)0.001, (T)0.002, (T)-0.001, (T)0.0005, (T)0, (T)(0.003 * (who + 1)));
  const ConstitutiveModel& base = solid;
  os << solid.Stress(eps).Print() << ';' << base.Stress(eps).Print() << ';' << solid.Print() << ';' << solid.JSON() << ';' << std::hash<Length<T>>()(Length<T>((T)who, Unit::Length::Metre)) % 1000 << ';';
  o.push_back(os.str());
}
static std::vector<std::string> work(int who, bool all) {
  std::vector<std::string> o;
  for (int rep = 0; rep < 3; rep++) {
    printing<float>(who, o);
    printing<double>(who, o);
    printing<long double>(who, o);
    if (all) {
      everything_else<float>(who, o);
      everything_else<double>(who, o);
      everything_else<long double>(who, o);
    }
  }
  return o;
}
int main(int argc, char** argv) {
  const bool all = argc > 1 && std::string(argv[1]) == "all";
  // single-threaded expectation (also forces every lazily initialised table into existence before the threads start: the
  // check is about concurrent USE, not about concurrent first use)
  const std::vector<std::string> want[2] = {work(0, all), work(1, all)};
  std::vector<std::string> got[2];
  std::atomic<int> ready{0};
  auto body = [&](int who) {
    ready.fetch_add(1);
    while (ready.load() < 2) {
    }
    for (int round = 0; round < 20; round++) {
      auto o = work(who, all);
      if (round == 0 || o != want[who]) got[who] = o;
      if (o != want[who]) break;
    }
  };
  std::thread a(body, 0), b(body, 1);
  a.join();
  b.join();
  for (int who = 0; who < 2; who++) {
    vf::stat("concurrent_calls", (long long)want[who].size() * 20);
    for (size_t i = 0; i < want[who].size() && i < got[who].size(); i++)
      if (got[who][i] != want[who][i]) {
        vf::viol(std::string("concurrent-use|result-differs|thread") + std::to_string(who),
                 "{\"item\":" + std::to_string(i) + ",\"alone\":" + vf::jstr(want[who][i].substr(0, 200)) + ",\"with_another_thread_running\":" + vf::jstr(got[who][i].substr(0, 200)) + "}");
        break;
      }
  }
  return 0;
}
