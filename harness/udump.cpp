// udump.cpp - runs the REAL code for one enumeration type and dumps, one JSON object per line,
// everything the unit-level properties (C01, C06, C07, C08, C19, C20) need to know about it.
// Built once per enumeration type:
//   -DVF_HDR='<PhQ/Unit/Length.hpp>' -DVF_E='PhQ::Unit::Length' -DVF_ENAME='"Length"' -DVF_KIND=0
//   VF_KIND: 0 = unit type, 1 = unit system, 2 = constitutive model type
// Every enumerator is handled in a forked child so that an unchecked find()->second on a missing
// table row (a crash) is an observation, not a dead harness.
#include VF_HDR
#if VF_KIND == 2
#include <PhQ/ConstitutiveModel.hpp>
#endif
#include <sys/wait.h>
#include <unistd.h>

#include <iostream>
#include <iomanip>
#include <sstream>

#include "reflect.hpp"
#include "vf.hpp"

using E = VF_E;

// The library declares operator<<(ostream&, Unit::X) in namespace PhQ (not in PhQ::Unit), so it is
// found by ordinary lookup from inside namespace PhQ (or after `using namespace PhQ`), not by ADL.
namespace PhQ {
template <class X, class = void>
struct VfStreams : std::false_type {};
template <class X>
struct VfStreams<X, std::void_t<decltype(std::declval<std::ostream&>() << std::declval<X>())>>
  : std::true_type {};
template <class X>
std::string vf_streamed(X e, bool& has) {
  if constexpr (VfStreams<X>::value) {
    std::ostringstream s;
    s << e;
    has = true;
    return s.str();
  } else {
    has = false;
    return "";
  }
}
// "streams as that abbreviation" in every stream state: with a pending field width, either adjustment and a fill character
// the same statement with Abbreviation(e) in place of e gives the same characters and leaves the same stream state.
template <class X>
std::string vf_stream_state_difference(X e) {
  if constexpr (VfStreams<X>::value) {
    const std::string_view ab = PhQ::Abbreviation(e);
    for (int st = 0; st < 4; st++) {
      std::ostringstream a, b;
      for (std::ostringstream* o : {&a, &b}) {
        if (st == 0) *o << std::setw((int)ab.size() + 6) << std::setfill('*');
        if (st == 1) *o << std::left << std::setw((int)ab.size() + 9) << std::setfill('.');
        if (st == 2) *o << std::internal << std::setw(3);
        if (st == 3) *o << std::setw(1) << std::uppercase << std::showpos;
      }
      a << e << '|' << e << '|' << 7;
      b << ab << '|' << ab << '|' << 7;
      if (a.str() != b.str() || a.width() != b.width() || a.flags() != b.flags()) return "state " + std::to_string(st) + ": streamed [" + a.str() + "] abbreviation streamed [" + b.str() + "]";
    }
  }
  return "";
}
}  // namespace PhQ

static std::string J(std::string_view s) { return vf::jstr(std::string(s)); }

template <class T>
static std::string conv3(E e) {
#if VF_KIND == 0
  std::ostringstream o;
  T one = PhQ::Convert(static_cast<T>(1), e, PhQ::Standard<E>);
  T zero = PhQ::Convert(static_cast<T>(0), e, PhQ::Standard<E>);
  T back = PhQ::Convert(static_cast<T>(1), PhQ::Standard<E>, e);
  T bzero = PhQ::Convert(static_cast<T>(0), PhQ::Standard<E>, e);
  o << "{\"one\":" << J(vf::hex(one)) << ",\"zero\":" << J(vf::hex(zero)) << ",\"back_one\":"
    << J(vf::hex(back)) << ",\"back_zero\":" << J(vf::hex(bzero)) << "}";
  return o.str();
#else
  return "null";
#endif
}

static void dump_one(const vf::Enumerator<E>& en) {
  std::ostringstream o;
  const E e = en.value;
  o << "{\"rec\":\"enumerator\",\"type\":" << J(VF_ENAME) << ",\"kind\":" << VF_KIND
    << ",\"number\":" << en.number << ",\"name\":" << J(en.name);
  const std::string_view ab = PhQ::Abbreviation(e);
  o << ",\"abbr\":" << J(ab);
  {
    bool has = false;
    std::string st = PhQ::vf_streamed(e, has);
    if (has)
      o << ",\"streamed\":" << J(st);
    else
      o << ",\"streamed\":null";
    o << ",\"stream_state_difference\":" << J(PhQ::vf_stream_state_difference(e));
  }
  {
    auto p = PhQ::ParseEnumeration<E>(ab);
    if (p.has_value())
      o << ",\"parse_abbr\":" << (int)static_cast<int8_t>(p.value());
    else
      o << ",\"parse_abbr\":null";
  }
#if VF_KIND == 0
  {
    const PhQ::Dimensions d = PhQ::RelatedDimensions<E>;
    o << ",\"dims\":[" << (int)d.Time().Value() << "," << (int)d.Length().Value() << ","
      << (int)d.Mass().Value() << "," << (int)d.ElectricCurrent().Value() << ","
      << (int)d.Temperature().Value() << "," << (int)d.SubstanceAmount().Value() << ","
      << (int)d.LuminousIntensity().Value() << "]";
    o << ",\"standard\":" << (int)static_cast<int8_t>(PhQ::Standard<E>);
    o << ",\"ld\":" << conv3<long double>(e) << ",\"d\":" << conv3<double>(e)
      << ",\"f\":" << conv3<float>(e);
    auto rs = PhQ::RelatedUnitSystem(e);
    if (rs.has_value())
      o << ",\"related_system\":" << (int)static_cast<int8_t>(rs.value());
    else
      o << ",\"related_system\":null";
  }
#endif
  o << ",\"spellings\":[";
  bool first = true;
  for (const auto& [s, v] : PhQ::Internal::Spellings<E>)
    if (v == e) {
      o << (first ? "" : ",") << J(s);
      first = false;
    }
  o << "]}";
  std::cout << o.str() << "\n" << std::flush;
}

int main() {
  const auto& ens = vf::enumerators<E>();
  for (const auto& en : ens) {
    std::cout << std::flush;
    pid_t pid = fork();
    if (pid == 0) {
      try {
        dump_one(en);
      } catch (const std::exception& ex) {
        std::cout << "{\"rec\":\"crash\",\"type\":" << J(VF_ENAME) << ",\"number\":" << en.number
                  << ",\"name\":" << J(en.name) << ",\"what\":" << J(std::string("exception: ") + ex.what()) << "}\n"
                  << std::flush;
      }
      _exit(0);
    }
    int st = 0;
    waitpid(pid, &st, 0);
    if (!(WIFEXITED(st) && WEXITSTATUS(st) == 0)) {
      std::cout << "{\"rec\":\"crash\",\"type\":" << J(VF_ENAME) << ",\"number\":" << en.number
                << ",\"name\":" << J(en.name) << ",\"what\":"
                << J(WIFSIGNALED(st) ? "signal " + std::to_string(WTERMSIG(st))
                                     : "exit " + std::to_string(WEXITSTATUS(st)))
                << "}\n";
    }
  }
  // table rows (the keys of the spelling table ARE the definition of "accepted spelling")
  std::set<int> declared;
  for (const auto& en : ens) declared.insert(en.number);
  std::ostringstream o;
  o << "{\"rec\":\"tables\",\"type\":" << J(VF_ENAME) << ",\"kind\":" << VF_KIND
    << ",\"enumerators\":" << ens.size();
  o << ",\"abbr_rows\":" << PhQ::Internal::Abbreviations<E>.size() << ",\"abbr_orphans\":[";
  bool first = true;
  for (const auto& [k, v] : PhQ::Internal::Abbreviations<E>)
    if (!declared.count((int)static_cast<int8_t>(k))) {
      o << (first ? "" : ",") << (int)static_cast<int8_t>(k);
      first = false;
    }
  o << "],\"spelling_rows\":" << PhQ::Internal::Spellings<E>.size() << ",\"spelling_orphans\":[";
  first = true;
  for (const auto& [s, v] : PhQ::Internal::Spellings<E>)
    if (!declared.count((int)static_cast<int8_t>(v))) {
      o << (first ? "" : ",") << J(s);
      first = false;
    }
  o << "]";
#if VF_KIND == 0
  // consistent units per system (forward table), in a child: map::at throws on a missing row
  o << ",\"consistent\":{";
  first = true;
  for (const auto& s : vf::enumerators<PhQ::UnitSystem>()) {
    o << (first ? "" : ",") << "\"" << s.number << "\":";
    first = false;
    try {
      E u = PhQ::ConsistentUnit<E>(s.value);
      o << (int)static_cast<int8_t>(u);
    } catch (const std::exception& ex) {
      o << "\"throws\"";
    }
  }
  o << "}";
#endif
  o << "}";
  std::cout << o.str() << "\n";
  return 0;
}
