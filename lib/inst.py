"""Instantiability sweep (DESIGN R5 / E2): `template class PhQ::X<T>;` for every quantity class,
vector/tensor class and constitutive model x 3 numeric types, with every header included so that
out-of-class member definitions living in *other* headers are instantiated too.

One syntax-only TU per numeric type first; if it fails, one TU per (class, T) decides which
(class, T) pairs are non-instantiable. A class that instantiates for no T is dead code (excluded,
listed); a class that instantiates for one T and not for another violates the 'all three numeric
types' quantifier.
"""
import re
from . import vf

TYPES = [('float', 'float'), ('double', 'double'), ('long double', 'longdouble')]


def all_includes():
    s = ''
    for u in vf.unit_names():
        s += '#include <PhQ/Unit/%s.hpp>\n' % u
    for q in vf.quantity_names():
        s += '#include <PhQ/%s.hpp>\n' % q
    s += '#include <PhQ/ConstitutiveModel.hpp>\n'
    for m in vf.model_names():
        s += '#include <PhQ/ConstitutiveModel/%s.hpp>\n' % m
    return s


def classes():
    cl = ['PhQ::%s' % q for q in vf.quantity_names()]
    cl += ['PhQ::PlanarVector', 'PhQ::Vector', 'PhQ::SymmetricDyad', 'PhQ::Dyad']
    cl += ['PhQ::ConstitutiveModel::%s' % m for m in vf.model_names()]
    return cl


def sweep(ctx):
    """returns {'instances': n, 'dead': {location: message}, 'failing': {(location, T): message}}
    location = '<header>:<line>' of a hard error raised while instantiating every member of every
    class for T. A location failing for all three T is dead code (no program using it compiles, so
    no behaviour exists); one failing for some T only breaks the 'all numeric types' quantifier."""
    inc = all_includes()
    cls = classes()
    jobs = []
    for t, tn in TYPES:
        src = inc + ''.join('template class %s<%s>;\n' % (c, t) for c in cls)
        jobs.append({'name': 'inst_all_' + tn, 'src': src, 'opt': '-O0', 'syntax_only': True})
    res = ctx.build_all(jobs)
    per_t = {}
    members = {}
    for (t, tn), r in zip(TYPES, res):
        locs = {}
        if not r[0]:
            # "In instantiation of 'constexpr PhQ::Length<NumericType> PhQ::PlanarDisplacement<NumericType>::z() const [with ...]'"
            for m in re.finditer(r"In instantiation of .*?PhQ::(?:ConstitutiveModel::)?(\w+)<NumericType>::(\w+)\(", r[1]):
                members.setdefault((m.group(1), m.group(2)), set()).add(t)
        if not r[0]:
            for m in re.finditer(r'^(\S+?):(\d+):\d+: error: (.*)$', r[1], re.M):
                f = m.group(1)
                if '/include/PhQ/' in f:
                    f = f.split('/include/', 1)[1]
                elif f.endswith('.cpp'):
                    f = 'harness'
                locs.setdefault('%s:%s' % (f, m.group(2)), m.group(3)[:160])
            if not locs:
                raise vf.Undecided('instantiation TU for %s failed without a parsable error: %s' % (t, r[1][:400]))
        per_t[t] = locs
    alll = set()
    for t in per_t:
        alll |= set(per_t[t])
    dead, failing = {}, {}
    for loc in sorted(alll):
        ts = [t for t, _ in TYPES if loc in per_t[t]]
        if len(ts) == len(TYPES):
            dead[loc] = per_t[ts[0]][loc]
        else:
            for t in ts:
                failing[(loc, t)] = per_t[t][loc]
    return {'instances': len(cls) * 3, 'dead': dead, 'failing': failing,
            'dead_members': sorted(k for k, v in members.items() if len(v) == len(TYPES)),
            'failing_members': sorted((k, sorted(v)) for k, v in members.items() if len(v) != len(TYPES))}
