"""Per-quantity-chunk harness builds: a harness source is compiled once per chunk of quantity
types, each TU including only the headers of its chunk (the library's headers pull in what they
relate to), with VF_SELQ / VF_SELQ_NAMES naming the chunk."""
import os
from . import vf


def chunks(names, k):
    k = max(1, min(k, len(names)))
    out = [[] for _ in range(k)]
    for i, n in enumerate(names):
        out[i % k].append(n)
    return [c for c in out if c]


def wrapper(names, harness_file, pre='', all_headers=False):
    inc = ''
    hdrs = vf.quantity_names() if all_headers else names
    for n in hdrs:
        inc += '#include <PhQ/%s.hpp>\n' % n
    sel = ', '.join('PhQ::%s' % n for n in names)
    nm = ', '.join('"%s"' % n for n in names)
    return '%s%s#define VF_SELQ %s\n#define VF_SELQ_NAMES %s\n#include "harness/%s"\n' % (pre, inc, sel, nm, harness_file)


def build(ctx, harness_file, names=None, nchunks=16, opt='-O1', flags=(), pre='', all_headers=False, tag=None):
    names = names or vf.quantity_names()
    src_dep = vf.read(os.path.join(vf.VERIF, 'harness', harness_file)).decode()
    jobs = []
    cks = chunks(names, nchunks)
    for i, c in enumerate(cks):
        # the harness text is appended as a comment-free dependency so the cache key follows it
        jobs.append({'name': '%s_%02d' % (tag or harness_file.replace('.cpp', ''), i),
                     'src': wrapper(c, harness_file, pre, all_headers) + '\n// dep ' + vf.sha(src_dep) + '\n',
                     'opt': opt, 'flags': list(flags)})
    res = ctx.build_all(jobs)
    return list(zip(cks, res))


def build_and_run(ctx, harness_file, names=None, nchunks=16, opt='-O1', flags=(), args=(), pre='',
                  all_headers=False, tag=None, on_compile_error=None):
    built = build(ctx, harness_file, names, nchunks, opt, flags, pre, all_headers, tag)
    bad = [(c, r[1]) for c, r in built if not r[0]]
    if bad:
        if on_compile_error:
            on_compile_error(bad)
        else:
            raise vf.Undecided('harness %s does not compile for chunk %s: %s' % (harness_file, bad[0][0], bad[0][1][:2000]))
    ctx.pmap(lambda cr: ctx.run(cr[1][0], args) if cr[1][0] else None, built)
    return built
