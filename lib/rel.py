"""E2: relation discovery (stage 1) and harness generation (stage 2) for C03/C04/C05/C18.

Discovery is done by the compiler (detection idiom over type tuples), never by trusting the
declarations: all 92x93 (type, type|number) pairs for the four binary operators and compound
assignments, all 92x92 pairs for one-argument constructors, all (C; A, B) with A, B among the
quantity names that occur in C's header (a constructor of C must name its parameter types there)
for two-argument constructors, and text-scanned candidates confirmed by the compiler for
three/four-argument constructors and member functions. Cached per tree hash."""
import json
import os
import re
from . import vf, qh


def class_text(name):
    return vf.read(os.path.join(vf.INC, 'PhQ', name + '.hpp')).decode()


def named_in(name, qs):
    txt = class_text(name)
    return [n for n in qs if re.search(r'\b' + n + r'<', txt)]


def ctor_candidates(name, qs):
    """constructor declarations of arity >= 3 found by a text scan of the class body: candidates
    only - existence is decided by the compiler"""
    txt = re.sub(r'//[^\n]*', '', class_text(name))
    out = set()
    for m in re.finditer(r'\b' + name + r'\(\s*((?:const\s+\w+<NumericType>&\s*\w+\s*,?\s*){3,4})\)', txt):
        types = re.findall(r'const\s+(\w+)<NumericType>&', m.group(1))
        if all(t in qs for t in types):
            out.add(tuple(types))
    return sorted(out)


SKIP_MEMBERS = {'Value', 'StaticValue', 'Print', 'JSON', 'XML', 'YAML', 'Zero', 'Create', 'Dimensions', 'Unit',
                'MutableValue', 'SetValue', 'GetType'}


def member_candidates(name, qs):
    """const member functions with 0 or 1 quantity-typed parameters, by text scan: candidates only"""
    txt = re.sub(r'//[^\n]*', '', class_text(name))
    out = set()
    for m in re.finditer(r'\[\[nodiscard\]\]\s+(?:inline\s+)?(?:constexpr\s+)?[\w:<>, ]+?\s+(\w+)\(([^()]*)\)\s*const', txt):
        fn, args = m.group(1), m.group(2).strip()
        if fn in SKIP_MEMBERS or fn.startswith('operator'):
            continue
        if not args:
            out.add((fn,))
            continue
        types = re.findall(r'const\s+(?:PhQ::)?(\w+)<NumericType>&', args)
        if 1 <= len(types) <= 3 and args.count(',') == len(types) - 1 and all(t in qs + ['Vector', 'PlanarVector', 'SymmetricDyad', 'Dyad'] for t in types):
            out.add((fn,) + tuple(types))
    return sorted(out)


def discover(ctx):
    cache = ctx.path('relations.json')
    stamp_src = vf.read(os.path.join(vf.VERIF, 'harness', 'rel_discover.hpp')) + vf.read(os.path.abspath(__file__))
    stamp = vf.sha(stamp_src)[:16]
    if os.path.exists(cache) and os.path.exists(cache + '.' + stamp):
        return json.load(open(cache))
    qs = vf.quantity_names()
    jobs = []
    chunks = qh.chunks(qs, 16)
    inc = ''.join('#include <PhQ/%s.hpp>\n' % n for n in qs)
    for ci, ch in enumerate(chunks):
        body = []
        for c in ch:
            C = 'PhQ::%s<double>' % c
            for b in qs:
                body.append('  rd::ops<%s, PhQ::%s<double>>("%s", "%s");' % (C, b, c, b))
                body.append('  rd::ctor1<%s, PhQ::%s<double>>("%s", "%s");' % (C, b, c, b))
            body.append('  rd::ops<%s, double>("%s", "number");' % (C, c))
            body.append('  rd::ops<double, %s>("number", "%s");' % (C, c))
            cand = named_in(c, qs)
            for a in cand:
                for b in cand:
                    body.append('  rd::ctor2<%s, PhQ::%s<double>, PhQ::%s<double>>("%s", "%s", "%s");' % (C, a, b, c, a, b))
            for t in ctor_candidates(c, qs):
                args = ', '.join('PhQ::%s<double>' % x for x in t)
                names = ', '.join('"%s"' % x for x in t)
                body.append('  rd::ctor%d<%s, %s>("%s", %s);' % (len(t), C, args, c, names))
            for m in member_candidates(c, qs):
                if len(m) == 1:
                    body.append('  rd::member0<%s>("%s", "%s", [](const auto& c) -> decltype(c.%s()) { return c.%s(); });' % (C, c, m[0], m[0], m[0]))
                elif len(m) == 2:
                    body.append('  rd::member1<%s, PhQ::%s<double>>("%s", "%s", "%s", [](const auto& c, const auto& a) -> decltype(c.%s(a)) { return c.%s(a); });' % (
                        C, m[1], c, m[0], m[1], m[0], m[0]))
                else:
                    targs = ', '.join('PhQ::%s<double>' % x for x in m[1:])
                    prm = ', '.join('const auto& a%d' % i for i in range(len(m) - 1))
                    call = ', '.join('a%d' % i for i in range(len(m) - 1))
                    body.append('  rd::memberN<%s, %s>("%s", "%s", "%s", [](const auto& c, %s) -> decltype(c.%s(%s)) { return c.%s(%s); });' % (
                        C, targs, c, m[0], ' '.join(m[1:]), prm, m[0], call, m[0], call))
        src = inc + '#include "rel_discover.hpp"\nint main() {\n' + '\n'.join(body) + '\n}\n'
        jobs.append({'name': 'reldisc_%02d' % ci, 'src': src, 'opt': '-O0'})
    bins = ctx.build_all(jobs)
    for ch, (b, err) in zip(chunks, bins):
        if not b:
            raise vf.Undecided('relation discovery does not compile for %s: %s' % (ch, err[:2000]))
    outs = ctx.pmap(lambda b: ctx.run(b[0], feed=False), bins)
    R = {'ops': [], 'compound': [], 'ctors': [], 'members': []}
    for o in outs:
        for l in o.splitlines():
            p = l.split()
            if p[0] == 'OP':
                R['ops'].append({'a': p[1], 'op': p[2], 'b': p[3], 'r': p[4]})
            elif p[0] == 'CA':
                R['compound'].append({'a': p[1], 'op': p[2], 'b': p[3]})
            elif p[0] == 'CTOR':
                R['ctors'].append({'c': p[1], 'args': p[2:]})
            elif p[0] == 'MEM':
                i = p.index('->')
                R['members'].append({'c': p[1], 'name': p[2], 'args': p[3:i], 'r': p[i + 1]})
    for k in R:
        R[k].sort(key=lambda d: json.dumps(d, sort_keys=True))
    with open(cache, 'w') as f:
        json.dump(R, f, indent=0)
    open(cache + '.' + stamp, 'w').close()
    return R


# ------------------------------------------------------------------ stage 2: generation
RAW_TYPES = {'Vector', 'PlanarVector', 'SymmetricDyad', 'Dyad'}


def cxx(name):
    if name == 'number':
        return 'T'
    return 'PhQ::%s<T>' % name


OPT = {'+': 'RawAdd', '-': 'RawSub', '*': 'RawMul', '/': 'RawDiv'}


def gen_items(R):
    """list of (mode, code) items; each is one statement inside `template <class T> void items_k()`"""
    qs = set(vf.quantity_names())
    items = []
    ctor_set = {(c['c'], tuple(c['args'])) for c in R['ctors']}
    # operators: homogeneity (mode 3) and exact arithmetic on stored values (mode 4)
    for o in R['ops']:
        a, b, op, r = o['a'], o['b'], o['op'], o['r']
        sig = '%s %s %s -> %s' % (a, op, b, r)
        A, B = cxx(a), cxx(b)
        lam = '[](const %s& a, const %s& b) { return a %s b; }' % (A, B, op)
        # mode 3 calls the relation with named operands and with temporaries: the lambda forwards the value category
        fwd = '[](auto&& a, auto&& b) { return std::forward<decltype(a)>(a) %s std::forward<decltype(b)>(b); }' % op
        items.append((3, 'rel::homogeneity<%s, %s>("%s", \'%s\', %s);' % (A, B, sig, op, fwd)))
        items.append((4, 'REL_EXACT("%s", %s, %s, %s, %s)' % (sig, A, B, op, OPT[op])))
        # constructor twin
        if r in qs:
            if (r, (a, b)) in ctor_set:
                items.append((4, 'rel::twin<%s, %s>("%s vs %s(%s, %s)", %s, [](const %s& a, const %s& b) { return %s(a, b); });' % (
                    A, B, sig, r, a, b, lam, A, B, cxx(r))))
            elif (r, (b, a)) in ctor_set:
                items.append((4, 'rel::twin<%s, %s>("%s vs %s(%s, %s)", %s, [](const %s& a, const %s& b) { return %s(b, a); });' % (
                    A, B, sig, r, b, a, lam, A, B, cxx(r))))
    # constructors of every arity: homogeneity
    for c in R['ctors']:
        args = c['args']
        types = ', '.join(cxx(x) for x in args)
        params = ', '.join('const %s& x%d' % (cxx(x), i) for i, x in enumerate(args))
        call = ', '.join('x%d' % i for i in range(len(args)))
        sig = '%s(%s)' % (c['c'], ', '.join(args))
        fparams = ', '.join('auto&& x%d' % i for i in range(len(args)))
        fcall = ', '.join('std::forward<decltype(x%d)>(x%d)' % (i, i) for i in range(len(args)))
        items.append((3, 'rel::homogeneity<%s>("%s", \'c\', [](%s) { return %s(%s); });' % (types, sig, fparams, cxx(c['c']), fcall)))
    # member functions returning quantities
    for m in R['members']:
        if m['r'] in ('optional',):
            continue
        C = cxx(m['c'])
        if not m['args']:
            items.append((3, 'rel::homogeneity<%s>("%s.%s()", \'m\', [](const %s& c) { return c.%s(); });' % (C, m['c'], m['name'], C, m['name'])))
        elif len(m['args']) == 1:
            Aa = cxx(m['args'][0])
            items.append((3, 'rel::homogeneity<%s, %s>("%s.%s(%s)", \'m\', [](const %s& c, const %s& a) { return c.%s(a); });' % (
                C, Aa, m['c'], m['name'], m['args'][0], C, Aa, m['name'])))
        else:
            types = ', '.join([C] + [cxx(x) for x in m['args']])
            params = ', '.join('const %s& x%d' % (cxx(x), i) for i, x in enumerate(m['args']))
            call = ', '.join('x%d' % i for i in range(len(m['args'])))
            items.append((3, 'rel::homogeneity<%s>("%s.%s(%s)", \'m\', [](const %s& c, %s) { return c.%s(%s); });' % (
                types, m['c'], m['name'], ', '.join(m['args']), C, params, m['name'], call)))
    # member functions with a constructor twin (mode 6): c.Name(args) vs Name(...) with the same operands in the constructor's order
    ctors_by_types = {}
    for c in R['ctors']:
        ctors_by_types.setdefault((c['c'], tuple(sorted(c['args']))), []).append(c['args'])
    for m in R['members']:
        if m['r'] in ('optional',) or m['name'] == 'Angle':
            continue  # Angle(a, a): C11's business, with its own oracle
        operands = [m['c']] + list(m['args'])
        if len(set(operands)) != len(operands):
            continue  # two operands of one type: the constructor's order cannot be read off the types
        for ca in ctors_by_types.get((m['r'], tuple(sorted(operands))), [])[:1]:
            types = ', '.join(cxx(x) for x in operands)
            params = ', '.join('const %s& x%d' % (cxx(x), i) for i, x in enumerate(operands))
            mcall = 'x0.%s(%s)' % (m['name'], ', '.join('x%d' % i for i in range(1, len(operands))))
            ccall = '%s(%s)' % (cxx(m['r']), ', '.join('x%d' % operands.index(t) for t in ca))
            sig = '%s.%s(%s) vs %s(%s)' % (m['c'], m['name'], ', '.join(m['args']), m['r'], ', '.join(ca))
            items.append((6, 'rel::member_twin<%s>("%s", [](%s) { return %s; }, [](%s) { return %s; });' % (types, sig, params, mcall, params, ccall)))
    # inverse pairs (mode 5)
    rel2 = []   # (result, x, y, expression template with a,b placeholders, label)
    for c in R['ctors']:
        if len(c['args']) == 2:
            rel2.append((c['c'], c['args'][0], c['args'][1], '%s({0}, {1})' % cxx(c['c']), '%s(%s, %s)' % (c['c'], c['args'][0], c['args'][1]), 'ctor'))
    for o in R['ops']:
        has_twin = (o['r'], (o['a'], o['b'])) in ctor_set or (o['r'], (o['b'], o['a'])) in ctor_set
        if not has_twin:  # operators with a constructor twin are tied to it bitwise by C04
            rel2.append((o['r'], o['a'], o['b'], '({0} %s {1})' % o['op'], '%s %s %s' % (o['a'], o['op'], o['b']), 'op'))
    index = {}
    for r in rel2:
        index.setdefault((r[0], r[1], r[2]), []).append(r)
    seen = set()
    for f in rel2:
        c, a, b = f[0], f[1], f[2]
        if c in RAW_TYPES:
            continue
        # recover the first operand a from (c, b) in either order; and the second operand b from (c, a)
        for which, keep, lost in ((0, b, a), (1, a, b)):
            for c_first in (True, False):
                order = (c, keep) if c_first else (keep, c)
                if not c_first and c == keep and f[5] == 'ctor':
                    continue
                for g in index.get((lost, order[0], order[1]), []):
                    if g[5] != f[5]:
                        continue  # constructor form with constructor form, operator form with operator form
                    if g is f:
                        continue
                    if f[5] == 'op':
                        # operators undo each other only in these combinations (c = l op k):
                        #   +: lost = c - keep;  *: lost = c / keep
                        #   -: l = c + k (either order), k = l - c;   /: l = c * k (either order), k = l / c
                        fop, gop = f[4].split()[1], g[4].split()[1]
                        ok = ((fop == '+' and gop == '-' and c_first) or (fop == '*' and gop == '/' and c_first) or
                              (fop == '-' and which == 0 and gop == '+') or (fop == '-' and which == 1 and gop == '-' and not c_first) or
                              (fop == '/' and which == 0 and gop == '*') or (fop == '/' and which == 1 and gop == '/' and not c_first))
                        if not ok:
                            continue
                    key = (f[4], g[4], which, c_first)
                    if key in seen:
                        continue
                    seen.add(key)
                    L, K = cxx(lost), cxx(keep)
                    # f as a function of (lost, keep)
                    fexpr = f[3].format('l', 'k') if which == 0 else f[3].format('k', 'l')
                    gexpr = g[3].format('c', 'k') if c_first else g[3].format('k', 'c')
                    sig = '%s recovers %s from %s' % (g[4], lost, f[4])
                    items.append((5, 'rel::inverse2<%s, %s>("%s", [](const %s& l, const %s& k) { return %s; }, [](const %s& c, const %s& k) { return %s; });' % (
                        L, K, sig, L, K, fexpr, cxx(c), K, gexpr)))
    one = {}
    for c in R['ctors']:
        if len(c['args']) == 1:
            one[(c['c'], c['args'][0])] = '%s(x)' % cxx(c['c'])
    for m in R['members']:
        if not m['args'] and m['r'] in qs:
            one.setdefault((m['r'], m['c']), 'x.%s()' % m['name'])
    for (c, a), fe in sorted(one.items()):
        ge = one.get((a, c))
        if ge:
            items.append((5, 'rel::inverse1<%s>("%s <-> %s", [](const %s& x) { return %s; }, [](const %s& x) { return %s; });' % (
                cxx(a), a, c, cxx(a), fe, cxx(c), ge)))
    return items


HEADER = '''#include "rel_check.hpp"
#define REL_EXACT(SIG, A, B, OP, RAWTRAIT)                                                                         \\
  {                                                                                                                 \\
    using A_ = A;                                                                                                   \\
    using B_ = B;                                                                                                   \\
    auto opf = [](const A_& a, const B_& b) { return a OP b; };                                                     \\
    auto tmpf = [](const A_& a, const B_& b, int which) {                                                           \\
      return which == 1 ? (A_(a) OP b) : which == 2 ? (a OP B_(b)) : (A_(a) OP B_(b));                               \\
    };                                                                                                              \\
    using R_ = std::decay_t<decltype(opf(std::declval<const A_&>(), std::declval<const B_&>()))>;                   \\
    if constexpr (rel::checkable<R_>) {                                                                             \\
      if constexpr (rel::RAWTRAIT<A_, B_>::value) {                                                                 \\
        if constexpr (std::is_same_v<typename rel::RAWTRAIT<A_, B_>::type, std::decay_t<decltype(rel::raw(std::declval<const R_&>()))>>) \\
          rel::exact_op<A_, B_>(SIG, #OP[0], opf, [](const A_& a, const B_& b) { return rel::raw(a) OP rel::raw(b); }, true, tmpf); \\
        else                                                                                                        \\
          rel::exact_op<A_, B_>(SIG, #OP[0], opf, opf, false, tmpf);                                                      \\
      } else {                                                                                                      \\
        rel::exact_op<A_, B_>(SIG, #OP[0], opf, opf, false, tmpf);                                                        \\
      }                                                                                                             \\
    }                                                                                                               \\
  }
'''


def relations(ctx):
    """discovered relations minus members that can be instantiated for no numeric type (dead code, DESIGN R5)"""
    from . import inst
    R = discover(ctx)
    sw = inst.sweep(ctx)
    dead = set(sw['dead_members'])
    R = dict(R)
    R['members'] = [m for m in R['members'] if (m['c'], m['name']) not in dead]
    ctx.h.notes.append('members excluded as dead code (instantiate for no numeric type): %s' % sorted(dead))
    return R


def build(ctx, mode, per_tu=70):
    """generated relation harness for one property (mode 3, 4 or 5); returns list of binaries"""
    R = relations(ctx)
    items = [code for m, code in gen_items(R) if m == mode]
    qs = vf.quantity_names()
    inc = ''.join('#include <PhQ/%s.hpp>\n' % n for n in qs)
    dep = vf.sha(vf.read(os.path.join(vf.VERIF, 'harness', 'rel_check.hpp')))
    jobs = []
    for k in range(0, len(items), per_tu):
        body = '\n'.join('  ' + c for c in items[k:k + per_tu])
        src = (inc + HEADER + '// dep %s\ntemplate <class T>\nvoid items() {\n%s\n}\n' % (dep, body) +
               'int main(int argc, char** argv) {\n  rel::MODE = %d;\n  rel::thorough = std::getenv("VERIF_TIER") && std::string(std::getenv("VERIF_TIER")) == "thorough";\n'
               '  const std::string t = argc > 1 ? argv[1] : "all";\n'
               '  if (t == "float" || t == "all") items<float>();\n  if (t == "double" || t == "all") items<double>();\n'
               '  if (t == "longdouble" || t == "all") items<long double>();\n  return 0;\n}\n' % mode)
        jobs.append({'name': 'rel%d_%03d' % (mode, k // per_tu), 'src': src, 'opt': '-O0'})
    res = ctx.build_all(jobs)
    return R, items, jobs, res
