"""Free-running ThreadSanitizer pass over harness/threads_tsan.cpp (the library's const interface used from two threads
at once). Complements the exhaustive single-threaded explorations: it keeps data races visible. A report counts only if
the second execution reports a race too (ThreadSanitizer's verdict is happens-before based, not timing based)."""
import os
import re
import subprocess
from lib import vf


def run(ctx, mode, prop_key):
    src = vf.read(os.path.join(vf.VERIF, 'harness', 'threads_tsan.cpp')).decode()
    b, err = ctx.compile('threads_tsan', src, opt='-O1', flags=['-fsanitize=thread', '-g'],
                         link=('-lquadmath', '-pthread'))
    if not b:
        raise vf.Undecided('threads_tsan does not compile: ' + err[:2500])
    e = dict(os.environ)
    e['TSAN_OPTIONS'] = 'exitcode=66:halt_on_error=0:report_signal_unsafe=0'
    reports = []
    for attempt in range(2):
        try:
            p = subprocess.run([b, mode], stdout=subprocess.PIPE, stderr=subprocess.PIPE, text=True, errors='replace',
                               env=e, timeout=600)
        except subprocess.TimeoutExpired:
            raise vf.Undecided('threads_tsan timed out')
        if p.returncode not in (0, 66):
            raise vf.Undecided('threads_tsan exited with %d: %s' % (p.returncode, p.stderr[-1500:]))
        if attempt == 0:
            ctx.h.feed(p.stdout, 'threads_tsan')
            for _, det in ctx.h.viols:
                if det.get('harness') == 'threads_tsan' or True:
                    pass
        races = re.findall(r'WARNING: ThreadSanitizer: ([^\n(]+)', p.stderr)
        where = ''
        m = re.search(r'#\d+ (\S+) (/repo/include/PhQ/[^\s:]+:\d+)', p.stderr)
        if m:
            where = '%s %s' % (m.group(1), m.group(2))
        reports.append((p.returncode, races, where, p.stderr))
    ctx.h.stats['tsan_executions'] = ctx.h.stats.get('tsan_executions', 0) + 2
    if all(r[0] == 66 and r[1] for r in reports):
        rc, races, where, err = reports[0]
        ctx.h.viols.append(('%s|%s' % (prop_key, races[0].strip().replace(' ', '-')),
                            {'what': 'ThreadSanitizer reports a %s when two threads use the const interface at the same time' % races[0].strip(),
                             'first_library_frame': where, 'reports': len(races), 'mode': mode,
                             'report': err[:1200]}))
    return b
