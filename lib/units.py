"""Runs harness/udump.cpp for all enumeration types of the tree (37 unit types, UnitSystem,
ConstitutiveModel::Type) and returns the parsed records. Cached per tree hash."""
import json
import os
from . import vf


def enum_types():
    ts = [{'name': u, 'hdr': '<PhQ/Unit/%s.hpp>' % u, 'cpp': 'PhQ::Unit::%s' % u, 'kind': 0}
          for u in vf.unit_names()]
    ts.append({'name': 'UnitSystem', 'hdr': '<PhQ/UnitSystem.hpp>', 'cpp': 'PhQ::UnitSystem', 'kind': 1})
    ts.append({'name': 'ConstitutiveModel::Type', 'hdr': '<PhQ/ConstitutiveModel.hpp>',
               'cpp': 'PhQ::ConstitutiveModel::Type', 'kind': 2})
    return ts


def dump(ctx):
    cache = ctx.path('udump.jsonl')
    src = vf.read(os.path.join(vf.VERIF, 'harness', 'udump.cpp')).decode()
    stamp = vf.sha(src, vf.read(os.path.join(vf.VERIF, 'engine', 'reflect.hpp')),
                   vf.read(os.path.join(vf.VERIF, 'engine', 'vf.hpp')))[:16]
    if os.path.exists(cache) and os.path.exists(cache + '.' + stamp):
        return [json.loads(l) for l in open(cache)]
    ts = enum_types()
    jobs = [{'name': 'udump_' + t['name'].replace('::', '_'), 'src': src, 'opt': '-O0',
             'flags': ['-DVF_HDR=%s' % t['hdr'], '-DVF_E=%s' % t['cpp'],
                       '-DVF_ENAME="%s"' % t['name'], '-DVF_KIND=%d' % t['kind']]} for t in ts]
    bins = ctx.build_all(jobs)
    for t, (b, err) in zip(ts, bins):
        if not b:
            raise vf.Undecided('unit dump for %s does not compile: %s' % (t['name'], err[:1500]))
    outs = ctx.pmap(lambda b: ctx.run(b[0], feed=False), bins)
    recs = []
    for o in outs:
        for l in o.splitlines():
            if l.startswith('{'):
                recs.append(json.loads(l))
    with open(cache, 'w') as f:
        for r in recs:
            f.write(json.dumps(r, ensure_ascii=False) + '\n')
    open(cache + '.' + stamp, 'w').close()
    return recs


# ------------------------------------------------------------------ oracle binding
import sys as _sys
_sys.path.insert(0, os.path.join(vf.VERIF, 'engine'))
import unit_oracle as uo  # noqa: E402
from fractions import Fraction as F  # noqa: E402


def measured(rec, t='ld'):
    """(a, b) with value_in_standard = a*x + b as measured by running Convert(1) and Convert(0)"""
    c = rec[t]
    one, zero = uo.parse_hexfloat(c['one']), uo.parse_hexfloat(c['zero'])
    return one - zero, zero


def bind(recs):
    """For every unit enumerator: the oracle readings of its own abbreviation that fit the declared
    dimension set; 'reading' = the admissible reading closest to the measured magnitude (several
    exist only where conventions differ: BTU, cal). Returns list of dicts; oracle problems (symbol
    not covered by grammar/atoms) are collected in 'oracle_errors'."""
    out, errors = [], []
    for r in recs:
        if r['rec'] != 'enumerator' or r['kind'] != 0:
            continue
        u = {'type': r['type'], 'name': r['name'], 'number': r['number'], 'abbr': r['abbr'], 'rec': r,
             'readings': [], 'reading': None, 'offset': F(0), 'all_dims': []}
        try:
            u['all_dims'] = uo.dims_of(r['type'], r['abbr'])
            u['readings'] = uo.admissible(r['type'], r['dims'], r['abbr'])
        except uo.ParseError as ex:
            errors.append('%s::%s abbreviation %r: %s' % (r['type'], r['name'], r['abbr'], ex))
            out.append(u)
            continue
        if u['readings']:
            a, b = measured(r)
            u['reading'] = min(u['readings'], key=lambda q: abs(q.value() - a))
        if r['type'] == 'Temperature':
            u['offset'] = uo.TEMP_OFFSETS.get(r['abbr'], F(0))
        out.append(u)
    return out, errors
