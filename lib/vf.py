"""Driver library: tree hashing, cached parallel builds, harness protocol, evidence, findings.

Everything a check reports comes from harness processes that ran against /repo's current
working tree; nothing here knows anything about phq's contents.
"""
import concurrent.futures as cf
import glob
import hashlib
import json
import os
import shutil
import subprocess
import sys
import time

VERIF = os.path.dirname(os.path.dirname(os.path.abspath(__file__)))
REPO = os.environ.get('VERIF_REPO', '/repo')
INC = os.path.join(REPO, 'include')
JOBS = int(os.environ.get('VERIF_JOBS', '16'))
CXX = os.environ.get('VERIF_CXX', 'g++')
# R4: IEEE semantics, no contraction, no fast-math.
BASEFLAGS = ['-std=c++17', '-ffp-contract=off', '-fno-fast-math', '-w', '-I' + INC,
             '-I' + os.path.join(VERIF, 'engine'), '-I' + os.path.join(VERIF, 'harness'), '-I' + VERIF]

INFRA = {'Base', 'ConstitutiveModel', 'Dimensions', 'Dyad', 'PlanarVector', 'SymmetricDyad',
         'Vector', 'Unit', 'UnitSystem'}


def quantity_names():
    """Quantity types = include/PhQ/*.hpp minus the infrastructure headers (DESIGN section 4)."""
    qs = sorted(os.path.basename(f)[:-4] for f in glob.glob(os.path.join(INC, 'PhQ', '*.hpp')))
    return [q for q in qs if q not in INFRA and not q.startswith('Dimensional')
            and not q.startswith('Dimensionless')]


def unit_names():
    return sorted(os.path.basename(f)[:-4] for f in glob.glob(os.path.join(INC, 'PhQ', 'Unit', '*.hpp')))


def model_names():
    return sorted(os.path.basename(f)[:-4]
                  for f in glob.glob(os.path.join(INC, 'PhQ', 'ConstitutiveModel', '*.hpp')))


def tree_hash():
    h = hashlib.sha256()
    for root, dirs, files in sorted(os.walk(INC)):
        dirs.sort()
        for f in sorted(files):
            p = os.path.join(root, f)
            h.update(os.path.relpath(p, INC).encode())
            h.update(b'\0')
            with open(p, 'rb') as fh:
                h.update(fh.read())
            h.update(b'\0')
    return h.hexdigest()


def sha(*parts):
    h = hashlib.sha256()
    for p in parts:
        h.update(p.encode() if isinstance(p, str) else p)
        h.update(b'\0')
    return h.hexdigest()


def read(path):
    with open(path, 'rb') as f:
        return f.read()


class Undecided(Exception):
    """Machinery could not decide (exit 2); never a VIOLATION."""


class Harness:
    """Aggregated protocol output of one or more harness processes."""

    def __init__(self):
        self.stats = {}
        self.maxf = {}
        self.samples = []
        self.viols = []   # (key, detail dict)
        self.notes = []
        self.sets = {}

    def feed(self, text, origin=''):
        for line in text.splitlines():
            if line.startswith('STAT '):
                k, v = line[5:].rsplit(' ', 1)
                self.stats[k] = self.stats.get(k, 0) + int(v)
            elif line.startswith('MAXF '):
                k, v = line[5:].rsplit(' ', 1)
                self.maxf[k] = max(self.maxf.get(k, float('-inf')), float(v))
            elif line.startswith('SAMPLE '):
                try:
                    self.samples.append(json.loads(line[7:]))
                except Exception:
                    self.samples.append(line[7:])
            elif line.startswith('VIOL '):
                key, _, det = line[5:].partition('\t')
                try:
                    d = json.loads(det) if det else {}
                except Exception:
                    d = {'raw': det}
                if origin:
                    d.setdefault('harness', origin)
                self.viols.append((key, d))
            elif line.startswith('NOTE '):
                self.notes.append(line[5:])
            elif line.startswith('SET '):
                _, k, v = line.split(' ', 2)
                self.sets.setdefault(k, set()).add(v)

    def stat(self, k, d=0):
        return self.stats.get(k, d)


class Ctx:
    def __init__(self, prop, tier, seed):
        self.prop = prop
        self.tier = tier
        self.seed = seed
        self.t0 = time.time()
        self.tree = tree_hash()
        self.bdir = os.path.join(VERIF, 'build', self.tree[:16])
        os.makedirs(self.bdir, exist_ok=True)
        self._prune()
        self.h = Harness()
        self.assumptions = [
            'harnesses are built with g++ -std=c++17 -ffp-contract=off without -ffast-math: IEEE-754 '
            'round-to-nearest, SSE for float/double, x87 80-bit for long double (DESIGN R4)',
            'the reference arithmetic is __float128 (libquadmath), exact integers or Python Fraction',
        ]
        self.coverage_extra = {}
        self.deadline = self.t0 + float(os.environ.get('VERIF_DEADLINE_S', '2400' if tier == 'quick' else '14400'))
        self.capped = False
        self._stdin_cache = {}
        self._replay_cache = {}
        import threading
        self._lock = threading.Lock()

    # ------------------------------------------------------------------ build cache
    def _prune(self):
        root = os.path.join(VERIF, 'build')
        try:
            os.utime(self.bdir, None)
            dirs = [os.path.join(root, d) for d in os.listdir(root)]
            dirs = [d for d in dirs if os.path.isdir(d)]
            # the build of the committed tree (no uncommitted change in /repo) is kept across runs against patched trees
            clean = subprocess.run(['git', '-C', REPO, 'status', '--porcelain', '--untracked-files=no'], stdout=subprocess.PIPE,
                                   stderr=subprocess.DEVNULL, text=True)
            if clean.returncode == 0 and not clean.stdout.strip():
                for d in dirs:
                    k = os.path.join(d, '.committed-tree')
                    if d == self.bdir:
                        open(k, 'w').close()
                    elif os.path.exists(k):
                        os.remove(k)
            dirs.sort(key=lambda d: os.path.getmtime(d), reverse=True)
            for d in [x for x in dirs if not os.path.exists(os.path.join(x, '.committed-tree'))][4:]:
                shutil.rmtree(d, ignore_errors=True)
        except OSError:
            pass

    def path(self, name):
        return os.path.join(self.bdir, name)

    def compile(self, name, source_text, flags=(), opt='-O1', cxx=None, link=('-lquadmath',),
                syntax_only=False, extra_dep=''):
        """Compile source_text (a full TU) into build/<tree>/<name>-<hash>; cached.
        Returns (binary_path or None, stderr_text)."""
        cxx = cxx or CXX
        deps = ''
        for f in sorted(glob.glob(os.path.join(VERIF, 'engine', '*.hpp'))):
            deps += sha(read(f))
        key = sha(source_text, ' '.join(flags), opt, cxx, ' '.join(link), deps, extra_dep, ' '.join(BASEFLAGS),
                  '1' if syntax_only else '0')[:20]
        out = self.path('%s-%s' % (name, key))
        errf = out + '.err'
        if os.path.exists(out) and not syntax_only:
            return out, ''
        if syntax_only and os.path.exists(out + '.ok'):
            return out + '.ok', ''
        if os.path.exists(errf):
            cached = open(errf, errors='replace').read()
            if 'error' in cached:
                return None, cached
        src = out + '.cpp'
        with open(src, 'w') as f:
            f.write(source_text)
        cmd = [cxx] + BASEFLAGS + [opt] + list(flags)
        if syntax_only:
            cmd += ['-fsyntax-only', src]
        else:
            cmd += [src, '-o', out + '.tmp'] + list(link)
        p = subprocess.run(cmd, stdout=subprocess.PIPE, stderr=subprocess.PIPE, text=True,
                           errors='replace')
        if p.returncode != 0:
            with open(errf, 'w') as f:
                f.write(p.stderr)
            return None, p.stderr
        if syntax_only:
            open(out + '.ok', 'w').close()
            return out + '.ok', ''
        os.replace(out + '.tmp', out)
        return out, ''

    def pmap(self, fn, items, jobs=None):
        items = list(items)
        if not items:
            return []
        with cf.ThreadPoolExecutor(max_workers=jobs or JOBS) as ex:
            return list(ex.map(fn, items))

    def run(self, binary, args=(), stdin=None, timeout=None, env=None, feed=True, origin=None,
            ok_codes=(0,)):
        """Run a harness; feed its protocol output into the aggregate. A crash of the harness
        itself is 'could not decide' unless the harness guards crashes in a fork."""
        if timeout is None:
            timeout = max(10.0, self.deadline - time.time())
        e = dict(os.environ)
        e['VERIF_SEED'] = str(self.seed)
        e['VERIF_TIER'] = self.tier
        if env:
            e.update(env)
        try:
            p = subprocess.run([binary] + [str(a) for a in args], input=stdin,
                               stdout=subprocess.PIPE, stderr=subprocess.PIPE, text=True,
                               errors='replace', timeout=timeout, env=e)
        except subprocess.TimeoutExpired as ex:
            raise Undecided('harness %s timed out after %.0fs' % (os.path.basename(binary), timeout))
        if p.returncode not in ok_codes:
            raise Undecided('harness %s %s exited with %d: %s' % (
                os.path.basename(binary), ' '.join(map(str, args)), p.returncode,
                (p.stderr or p.stdout)[-1500:]))
        if feed:
            with self._lock:
                n0 = len(self.h.viols)
                self.h.feed(p.stdout, origin or os.path.basename(binary).rsplit('-', 1)[0])
                for _, det in self.h.viols[n0:]:
                    det['_cmd'] = [binary] + [str(a) for a in args]
                    if stdin is not None:
                        self._stdin_cache[tuple(det['_cmd'])] = stdin
        return p.stdout

    def default_replay(self, key, det):
        """R6: re-execute the harness process that reported the case and require the identical
        key to be reported again (harnesses are deterministic functions of tree, tier and seed).
        One re-execution per distinct harness command, shared by all its violations."""
        cmd = det.get('_cmd')
        if not cmd:
            return True
        ck = tuple(cmd)
        with self._lock:
            keys = self._replay_cache.get(ck)
        if keys is None:
            e = dict(os.environ)
            e.update({'VERIF_SEED': str(self.seed), 'VERIF_TIER': self.tier})
            p = subprocess.run(cmd, input=self._stdin_cache.get(ck), stdout=subprocess.PIPE,
                               stderr=subprocess.PIPE, text=True, errors='replace', env=e)
            keys = set()
            for line in p.stdout.splitlines():
                if line.startswith('VIOL '):
                    keys.add(line[5:].partition('\t')[0])
            with self._lock:
                self._replay_cache[ck] = keys
        return key in keys

    def prefetch_replays(self, dets):
        cmds = {}
        for d in dets:
            if d.get('_cmd'):
                cmds[tuple(d['_cmd'])] = d
        self.pmap(lambda d: self.default_replay('', d), list(cmds.values()))


    def build_all(self, jobs):
        """jobs: list of dicts(name, src, flags?, opt?) -> list of (binary or None, stderr)."""
        def one(j):
            return self.compile(j['name'], j['src'], j.get('flags', ()), j.get('opt', '-O1'),
                                j.get('cxx'), j.get('link', ('-lquadmath',)),
                                j.get('syntax_only', False))
        return self.pmap(one, jobs)

    def out_of_time(self):
        if time.time() > self.deadline:
            self.capped = True
            return True
        return False


# ---------------------------------------------------------------------- findings / finish
def load_findings():
    p = os.path.join(VERIF, 'known_findings.json')
    if not os.path.exists(p):
        return {'findings': [], 'fixed': []}
    return json.load(open(p))


def finish(ctx, level, rule, evaluations, distinct_nontrivial, exhaustive, coverage=None,
           replay_fn=None, extra_assumptions=()):
    """Apply known findings, confirm violations by replay, write evidence, print verdict lines.
    replay_fn(key, detail) -> bool re-executes the single failing case (R6); None = already
    deterministic re-run by the caller."""
    h = ctx.h
    kf = load_findings()
    open_f = {(f['property'], f['key']): f for f in kf.get('findings', [])
              if f.get('status', 'open') == 'open'}
    seen = {}
    for key, det in h.viols:
        seen.setdefault(key, det)
    known_hit, new = [], []
    for key, det in seen.items():
        if (ctx.prop, key) in open_f:
            known_hit.append((key, det))
        else:
            new.append((key, det))
    confirmed = []
    if replay_fn is None:
        ctx.prefetch_replays([d for _, d in new])
    for key, det in new:
        ok = True
        fn = replay_fn or ctx.default_replay
        if fn is not None:
            try:
                ok = bool(fn(key, det))
            except Undecided as ex:
                det['replay_error'] = str(ex)
                ok = True
        if ok:
            confirmed.append((key, det))
        else:
            h.notes.append('violation %s did not reproduce on replay; treated as harness nondeterminism' % key)
    rdir = os.path.join(VERIF, 'replays', ctx.prop)
    lines = []
    for key, det in known_hit:
        lines.append('KNOWN-FINDING: property=%s %s' % (ctx.prop, open_f[(ctx.prop, key)]['what']))
    if confirmed:
        os.makedirs(rdir, exist_ok=True)
    for i, (key, det) in enumerate(confirmed):
        rp = os.path.join(rdir, '%s.json' % hashlib.sha256(key.encode()).hexdigest()[:12])
        with open(rp, 'w') as f:
            json.dump({'property': ctx.prop, 'key': key, 'detail': det, 'tier': ctx.tier,
                       'seed': ctx.seed, 'tree': ctx.tree,
                       'how_to_replay': './check %s --tier %s   (deterministic; the case with this key is re-evaluated)' % (ctx.prop, ctx.tier)},
                      f, indent=1, ensure_ascii=False)
        if i < 25:
            lines.append('VIOLATION property=%s replay=%s' % (ctx.prop, rp))
            print('  detail: %s | %s' % (key, json.dumps(det, ensure_ascii=False)[:600]))
    cov = {
        'evaluations': int(evaluations),
        'distinct_nontrivial': int(distinct_nontrivial),
        'rule': rule,
        'samples': h.samples[:12] if h.samples else ['(no sample emitted)'],
        'exhaustive': bool(exhaustive) and not ctx.capped,
        'stats': h.stats,
        'max': h.maxf,
        'sets': {k: len(v) for k, v in h.sets.items()},
        'notes': h.notes[:60],
        'known_findings_reproduced': [k for k, _ in known_hit],
        'capped_by_deadline': ctx.capped,
    }
    if coverage:
        cov.update(coverage)
    cov.update(ctx.coverage_extra)
    ev = {
        'property_id': ctx.prop, 'tier': ctx.tier, 'seed': int(ctx.seed), 'level': level,
        'coverage': cov,
        'assumptions': ctx.assumptions + list(extra_assumptions),
        'wall_s': round(time.time() - ctx.t0, 2),
        'violations': len(confirmed),
        'tree_sha256': ctx.tree,
    }
    os.makedirs(os.path.join(VERIF, 'evidence'), exist_ok=True)
    with open(os.path.join(VERIF, 'evidence', ctx.prop + '.json'), 'w') as f:
        json.dump(ev, f, indent=1, ensure_ascii=False)
        f.write('\n')
    for l in lines:
        print(l)
    print('%s tier=%s evaluations=%d distinct_nontrivial=%d exhaustive=%s violations=%d known=%d wall=%.1fs' % (
        ctx.prop, ctx.tier, evaluations, distinct_nontrivial, cov['exhaustive'], len(confirmed),
        len(known_hit), time.time() - ctx.t0))
    return 1 if confirmed else 0
