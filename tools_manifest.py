#!/usr/bin/env python3
"""Generates MANIFEST.json from the registry below (one entry per property whose check is built
and shown quiet on the repaired tree). Properties without an entry are listed under
not_applicable with the reason given in PENDING."""
import json

SOURCE_COMMITS = []  # filled from known_findings.json 'fixed' lines
ENGINES = [
    {'name': 'driver', 'path': 'check + lib/vf.py', 'serves_properties': 'ALL',
     'kind_free_text': 'tree-hash keyed build cache, parallel harness runs, harness protocol aggregation, replay-before-report, known-findings filter, evidence writer'},
    {'name': 'E1 reflect', 'path': 'engine/reflect.hpp', 'serves_properties': ['C01', 'C06', 'C07', 'C08', 'C19', 'C20'],
     'kind_free_text': 'compile-time enumeration of all declared enumerators of an int8 enum (independent of the library tables)'},
    {'name': 'E5 unit-symbol oracle', 'path': 'engine/unit_oracle.py', 'serves_properties': ['C01', 'C06', 'C07', 'C08'],
     'kind_free_text': 'grammar + atom table (SI Brochure, NIST SP 811) expanding unit symbols to exact rational x pi^k magnitudes and dimension exponents'},
    {'name': 'E2 relation discovery/generation', 'path': 'lib/rel.py + harness/rel_discover.hpp + harness/rel_check.hpp', 'serves_properties': ['C03', 'C04', 'C05', 'C18'],
     'kind_free_text': 'compiler-driven discovery of every operator/constructor/member relation (detection idiom over type tuples) and generation of one checked call per relation and numeric type'},
    {'name': 'instantiability sweep', 'path': 'lib/inst.py', 'serves_properties': ['C03', 'C04', 'C05'],
     'kind_free_text': 'explicit instantiation of every class x numeric type; dead code vs per-type failures'},
    {'name': 'unit dump', 'path': 'harness/udump.cpp + lib/units.py', 'serves_properties': ['C01', 'C06', 'C07', 'C08'],
     'kind_free_text': 'runs the real lookup/convert code for every enumerator of the 39 enumeration types in forked children and records what it does'},
]

CHECKS = {}


def reg(pid, category, text, note, technique, design_ref, thorough=True):
    CHECKS[pid] = {
        'property_id': pid,
        'quick_cmd': './check %s --tier quick' % pid,
        'evidence_file': '/verif/evidence/%s.json' % pid,
        'replay_cmd_template': './check %s --replay {path}' % pid,
        'engine': 'driver',
        'level_claimed': {'category': category, 'text': text, 'design_ref': design_ref},
        'level_note': note,
        'technique': technique,
    }
    if thorough:
        CHECKS[pid]['thorough_cmd'] = './check %s --tier thorough' % pid


TB = ('Trusted: g++ 12 / glibc / libquadmath on x86-64 with IEEE-754 semantics (harnesses are built without -ffast-math, '
      'unlike the repository\'s tests); the reference models and oracles under /verif/engine and /verif/harness. ')

reg('C01', 'exploration',
    'Bounded exhaustive exploration of the real conversion code: ALL ordered unit pairs of all unit types (enumerators found by '
    'compile-time reflection, 14232 pairs today) x 3 numeric types x a covering value alphabet (boundary/stratified mantissas x '
    'extreme and middle binades x both signs x +-0, cancellation neighbourhoods for the affine temperature units; thorough adds all '
    '2^23 float mantissas per pair), through both PhQ::Convert and ConvertStatically, each result compared with the exact affine map '
    'computed in __float128 from factors that an independent oracle derives from the unit symbol alone. The configuration axis is '
    'complete; conversions are affine so the alphabet covers every branch-free behaviour up to rounding (measured worst case 5.5 ulp '
    'against a tolerance of 8 per hop).',
    TB + 'The atom table of the symbol oracle (Appendix A of DESIGN.md). Values outside the alphabet are covered by the affine-map '
    'argument, not enumerated (except float mantissas in the thorough tier).',
    'exhaustive configuration sweep + covering value alphabet against independent symbol oracle (bounded exhaustive exploration)',
    'DESIGN.md section 7 C01')
reg('C06', 'exploration',
    'Exhaustive: every unit symbol expanded by the independent oracle vs the declared RelatedDimensions; every quantity type x 3 numeric '
    'types vs its unit type; every exponent tuple in [-3,3]^7 (823543) for Print/JSON/XML/YAML vs a reference builder; every ordered '
    'pair over [-1,1]^7 (4.8e6) plus extreme int8 tuples for ==,!=,<,>,<=,>= and hash vs lexicographic tuple comparison; containers; '
    'all 256 values / 65536 pairs of each single-dimension class.',
    TB + 'Symbol oracle atom table.', 'exhaustive enumeration of finite configuration and exponent spaces against reference model',
    'DESIGN.md section 7 C06', thorough=False)
reg('C07', 'exploration',
    'Exhaustive over the finite configuration space: all (unit system, unit type) pairs (148) - SI magnitude of the consistent unit, '
    'from its symbol (exact rational arithmetic) and as measured by the real Convert in long double, equals the product of the '
    'system\'s base units raised to the declared exponents - all 514 reverse lookups, and ALL call histories of length 3 (N^3 per unit type) of '
    'RelatedUnitSystem, ConsistentUnit, Abbreviation, ParseEnumeration and Convert on the real code (a lookup must be a function of its argument only; the three results are bound by reference '
    'and read after the last call), the same tables asked from a second and third thread, one after another, in both orders of first use, and histories that start in a pristine forked process (every order of first use of the unit systems, every ordered pair as first calls).',
    TB + 'Symbol oracle atom table; the reading of unit-system enumerator names (Metre/Millimetre/Foot/Inch, Kilogram/Gram/Pound(-force), Second, Kelvin/Rankine).',
    'exhaustive enumeration of the finite configuration space against exact rational oracle + exhaustive call histories (N^3, thread orders, pristine-process first-use orders)', 'DESIGN.md section 7 C07')
reg('C08', 'exploration',
    'Exhaustive over the tables: every enumerator of the 39 enumeration types (found by reflection over all int8 values, each looked up '
    'by the real code in a forked child so a missing row is an observed crash), every accepted spelling (all keys of the spelling '
    'tables, 2048 today) expanded by the independent symbol oracle and compared with the magnitude of the enumerator it parses to, and '
    'a bounded negative space on the real parser: every string within edit distance 1 of any accepted spelling plus all strings up to '
    'length 2 (quick) / 3 (thorough) over the bytes in use, accepted iff byte-identical to a table key (linear scan oracle); thorough also walks EVERY string up to length 6-10 over the bytes of the '
    'type\'s own spellings (5.3e10 strings, trie oracle); every string is '
    'parsed from one reused, non-terminated buffer directly after an accepted spelling of the same length (two-step histories); each '
    'enumerator converts to and from the standard unit by the magnitude its abbreviation denotes.',
    TB + 'Symbol oracle atom table; "accepted spelling" is defined as the key set of the library\'s spelling table (iterated, not looked up).',
    'exhaustive table enumeration + bounded exhaustive negative-space strings against independent oracle', 'DESIGN.md section 7 C08')

reg('C11', 'exploration',
    'Bounded exhaustive exploration of every angle entry point found by probing (8 constructor kernels, 6 member forms on plain '
    'vectors/directions, Angle(Q,Q) and q.Angle(q) of every vector-valued quantity type) x 3 numeric types over pair families that '
    'cover the property\'s branch regions: ALL parallel and antiparallel pairs (a, +-k a) for a in {-4..4}^D and six factors k, nearly '
    'parallel pairs a + 2^-k e_j for every k up to the mantissa width, all pairs of {-2..2}^D, vectors whose components differ by up to 2^(max_exponent/2), each under power-of-two rescalings of '
    'either argument. Oracle on every evaluation: not NaN, in [0, pi], bitwise symmetric, bitwise scale invariant, within '
    '1e-3/1e-7/1e-9 rad of atan2(|a x b|, a.b) evaluated in __float128.',
    TB + 'Value axis is a finite alphabet: integer-lattice directions and their neighbourhoods, not all real vectors.',
    'bounded exhaustive enumeration of kernels x pair families against __float128 atan2 reference', 'DESIGN.md section 7 C11')

reg('C09', 'exploration',
    'Bounded exhaustive exploration of the hand-written component formulas: every operation and operand-shape combination of the four '
    'vector/tensor classes x 3 numeric types on COMPLETE small-integer grids (all pairs of {-3..3}^3 vectors, all 15625 symmetric dyads '
    'over {-2..2}^6, all 19683 dyads over {-1,0,1}^9, all pairs for SymmetricDyad*SymmetricDyad over {-1,0,1}^6, mixed and Dyad*Dyad '
    'products over complete {0,1}^9 grids and basis/generic partners; thorough: all 3.9e8 pairs of {-1,0,1}^9), demanded EXACTLY '
    'against an index-loop reference in integer arithmetic; Inverse under power-of-two scalings absent iff the integer determinant is '
    'zero (scalings include one at which the determinant is subnormal), inverse components to 4 ulp of the exact quotient; embeddings by construction and by assignment; in-place scaling by a reference into the operand; '
    'plus generic real tensors to 4 ulp of the sum of |terms| against __float128. Each formula is a multilinear polynomial of '
    'degree <= 3 per slot, so agreement on these grids identifies it.',
    TB + 'Real-valued inputs are a finite generic sample used only for the rounding bound; the exactness claim rests on the grids.',
    'exhaustive integer-grid enumeration against exact index-loop reference (bounded exhaustive exploration)', 'DESIGN.md section 7 C09')

reg('C02', 'exploration',
    'Bounded exhaustive exploration of the forwarding/wiring of every conversion entry point: every dimensional quantity type x every '
    'unit of its unit type x 3 numeric types x every constructor form, every Create<u> overload, Value(u2), StaticValue<u>, and the '
    'numbers inside Print/JSON/XML/YAML(u2), and per unit type every container form of Convert/ConvertInPlace/ConvertStatically '
    '(scalar, array<1,2,3,6,9,17>, vector<0,1,5,64,1000,1024,4096>, PlanarVector, Vector, SymmetricDyad, Dyad), each compared slot by slot with the '
    'scalar PhQ::Convert of that component (<= 1 ulp) using pairwise distinct slot values; copying forms must not modify their '
    'argument, in-place == copying, unit-to-itself identity, construct-in-u/read-in-u round trip. quick covers target units '
    '{u, next(u), standard} for every u; thorough all ordered unit pairs.',
    TB + 'All entry points forward to one routine per unit, so what can differ is which elements / which count / which table row - '
    'a finite set of wiring facts that the distinct-slot alphabet exposes; values themselves are a fixed alphabet.',
    'exhaustive configuration sweep of entry points x units x container forms against the scalar conversion as reference model', 'DESIGN.md section 7 C02')
reg('C14', 'exploration',
    'Exhaustive pairwise exploration: for every quantity type, the 4 vector/tensor classes, Dimensions and the 3 model classes x 3 '
    'numeric types, ALL ordered pairs of a value set S = A^n that forces ties in every leading prefix and contains signed zeros and '
    'infinities; the six operators must equal lexicographic comparison of the stored components (a reference that is a total order, so '
    'agreement on all pairs implies the order axioms on S), == implies equal std::hash, and std::set / std::unordered_set store and '
    'find every element with size equal to the number of equivalence classes.',
    TB + 'S is a finite alphabet per slot ({-inf,-1,-0,+0,1,+inf} for n<=3, {-1,-0,+0,1} for n=6, {0,1} or {-1,0,1} for n=9); comparison code is '
    'branch-only on <,>,== of components so the alphabet covers every branch outcome in every slot.',
    'exhaustive all-pairs enumeration over tie-forcing value grids against lexicographic reference order', 'DESIGN.md section 7 C14')

reg('C12', 'exploration',
    'Bounded exhaustive exploration of the constitutive model: ALL 20 modulus-pair constructors and 7 accessors x a material grid '
    'covering 75 binades of stiffness and Poisson ratios from exactly 0 through 2^-40 up to 1/2-2^-40 (the branch regions nu->0 and '
    'nu->1/2 of the square-root and cancelling constructors) x 3 model precisions, each constructor fed the pair the model itself '
    'reports and compared with the exact __float128 function of that pair and with the original material under the perturbation '
    'oracle R3; stress/strain maps in all 9 (model precision x argument precision) combinations on basis/pair/generic tensors '
    'against __float128, inverse composition, ignored arguments bitwise, zero stubs, and every call repeated through the abstract '
    'interface. One genuine defect is a listed known finding (lambda, nu) at nu = 0; another was repaired (fix: 41f9bb8).',
    TB + 'Material grid and tensor alphabet are finite; formulas are rational with at most one square root so the grid separates any '
    'wrong constant, root or operand order by many orders of magnitude.',
    'exhaustive sweep of constructors/accessors/overloads x material grid against __float128 reference with perturbation oracle', 'DESIGN.md section 7 C12')
reg('C13', 'exploration',
    'Bounded exhaustive exploration of both Newtonian fluid classes: 3 model precisions x 3 argument precisions x viscosity grid '
    '(75 binades, five bulk/shear ratios including 0) x basis/pair/generic symmetric tensors and every diagonal tensor over {-2..3}^3 (isotropic, plane-shear, first-entry-equals-mean): forward map against __float128, inverse '
    'composition under R3, strain arguments ignored bitwise, stubs exactly +0, virtual interface bitwise identical, homogeneity '
    'bitwise for power-of-two factors and additivity, single-argument compressible constructor identical to (mu, +0).',
    TB + 'Finite viscosity/tensor alphabets; the maps are linear so basis + pair tensors identify the formula.',
    'exhaustive sweep of overloads x precision combinations x viscosity grid against __float128 reference', 'DESIGN.md section 7 C13')

reg('C10', 'exploration',
    'Bounded exhaustive exploration of every construction path of Direction/PlanarDirection (components, array, vector, the three Set '
    'forms, Vector::Direction(), 2-D<->3-D, cross product, construction from every vector quantity) x 3 numeric types over ALL integer '
    'vectors of {-6..6}^D, near-degenerate vectors (1, 2^-k, ..) and lengths 1 +- 2^-j for every k, j up to the mantissa width, histories on one object (set from its own value / components, self-assignment), at binades spread over the whole '
    'range in which the squared length neither overflows nor underflows, and zero vectors of both signs; unit length to 4 eps (norm in '
    '__float128), parallel/same sense, bitwise power-of-two scale invariance, all paths bitwise identical; every vector-valued quantity '
    'type (17, discovered by shape): Magnitude() type and value, typed component accessors, magnitude*direction and Q(magnitude, '
    'direction) reconstruction.',
    TB + 'Finite direction lattice and binade set (every 32nd binade quick, every 8th thorough).',
    'bounded exhaustive enumeration of construction paths x integer/near-degenerate vectors x binades against __float128 norm oracle', 'DESIGN.md section 7 C10')
reg('C15', 'exploration',
    'Numbers: thorough enumerates ALL 2^32 float bit patterns (every finite normal one is printed, analysed and parsed back); quick every '
    '4093rd; for double and long double every notation boundary with 1024/4096 neighbours on each side, every power of two and ten with '
    'neighbours, extremes and 2^16/2^22 stratified bit patterns: digit count = max_digits10+1, fixed iff 0.001 <= |x| < 10000 decided '
    'exactly, 0 for zeros, bit-identical parse-back. Composite: every quantity type, the 4 vector/tensor classes x 3 numeric types, '
    'standard form and every unit: number texts equal PhQ::Print(c_i) in declared order, unit abbreviation, JSON validated by an '
    'independent recursive-descent parser (fields, key order), XML/YAML balance, operator<< == Print() in six stream states (pending width/fill/adjustment, leftover flags and precision). '
    'Plus one free-running ThreadSanitizer pass: printing from two threads at once gives the single-threaded strings without a data race.',
    TB + 'glibc strtof/strtod/strtold and printf are the conversion engines under both the library and the oracle; the oracle checks the '
    'text against the exact real-number conditions of the statement, not against another printer.',
    'exhaustive bit-pattern enumeration (float) + boundary-neighbourhood enumeration against exact real-number oracle', 'DESIGN.md section 7 C15')
reg('C16', 'exploration',
    'Exhaustive over the configuration space: every quantity type and the 4 vector/tensor classes x all 6 ordered numeric-type pairs x '
    '{converting construction, converting assignment into a non-zero target, assignment twice, assignment over an equal-valued target with opposite zero signs}, every slot compared bitwise with the '
    'plain static_cast of the same slot of the source for slot-distinct values that are not representable in the narrower type and for the boundary values of every narrowing conversion (around the narrower maximum and its rounding tie, smallest normal/subnormal); '
    'widen-then-narrow identity; directions within 2 ulp and of unit length.',
    TB + 'Conversions are per-slot casts with no data-dependent branches, so a fixed slot-distinct alphabet identifies truncated, permuted, dropped or accumulated slots.',
    'exhaustive configuration sweep of converting members against plain-cast reference', 'DESIGN.md section 7 C16', thorough=False)
reg('C17', 'model_checking',
    'Explicit-state model checking on the real objects: for every quantity type x 3 numeric types, breadth-first search with state '
    'hashing over histories of mutator/accessor operations (SetValue, MutableValue assignment, EVERY one-number mutator of the stored vector/tensor (6/9/24/27 writers), whole-value setters in scalar and array form and fed with references into the object itself in permuted order, copy-assign, memcpy '
    'out/in as array of numbers, array-of-quantities view) over a 3-value alphabet, to closure for 1-3 component types and to depth 3/4 '
    'for 6/9 component types, with a plain std::array as reference model compared after every transition (Value() and raw memory image); '
    'plus the static layout facts (sizeof, alignof, trivially copyable, standard layout, not polymorphic) and Zero() for every instance.',
    TB + 'State = bit pattern of the stored numbers (no hidden state is assumed: the sizeof fact checked alongside rules it out).',
    'explicit-state BFS with state hashing over operation histories of the real objects against an array reference model', 'DESIGN.md section 7 C17')

reg('C03', 'exploration',
    'Exhaustive over programs: the complete relation set is discovered by the compiler from the tree (all 92x93 operand pairs for the four '
    'binary operators, all one-argument and two-argument constructor tuples, 3/4-argument constructors and member functions confirmed by '
    'the detection idiom, members with up to three quantity arguments: 781 operators, 313 constructors, 193 members today) and every relation is checked in all 3 numeric types: '
    'statically that the result type\'s dimension set is the sum/difference/same set, and dynamically that rescaling each of the seven '
    'base units by 4 (all at once; and by 4^18 / 4^-18) rescales the result by exactly the factor the result type predicts. Powers of 4 make the check '
    'exact in binary floating point (0 ulp observed), so any wrong exponent shows as a factor >= 4.',
    TB + 'Two-argument constructor tuples are pre-filtered to type names that occur in the class header (a constructor must name its parameter '
    'types there); 3/4-argument constructors and members come from a text scan confirmed by the compiler. Operand values are a fixed alphabet.',
    'exhaustive enumeration of compiler-discovered relations x unit rescalings (bounded exhaustive exploration over programs)', 'DESIGN.md section 7 C03')
reg('C04', 'model_checking',
    'Explicit-state model checking of compound-assignment histories on the real objects (BFS with state hashing over all discovered += -= '
    '*= /= forms x 3 operand values, depth 4/5, 3.2e6 states, every transition compared bitwise with the pure-operator chain and with '
    'plain-number arithmetic), plus an exhaustive sweep of every discovered operator instance x 3 numeric types compared bitwise with the '
    'same operator on the stored values (operand order exposed by asymmetric full-mantissa values; one operand at a time also at the ends of the numeric range), the raw vector/tensor classes and operands that alias the object in the histories, every constructor/operator twin '
    'compared bitwise, the std:: math overloads of every dimensionless scalar (also on -0, +-inf, subnormals), and an explicit instantiation of every member of every '
    'class for all three numeric types.',
    TB + 'Harness and library are compiled in one TU with contraction off, so bitwise equality is the right oracle for "exactly".',
    'explicit-state BFS over operation histories + exhaustive operator sweep against plain-number reference model', 'DESIGN.md section 7 C04')
reg('C05', 'exploration',
    'Exhaustive over programs: inverse pairs are derived mechanically from the compiler-discovered relation set (1495 pairs today: '
    'constructor form for both operands, operator form where no constructor twin exists, one-argument pairs from the smaller shape) and '
    'each composition g(f(a,b),b) is compared with a over a positive magnitude grid spanning 80 binades (40 in float) in 3 numeric types (decided domain: moderate magnitudes; the ends of the numeric range are walked for information in the thorough tier); the accepted '
    'error is the implementation\'s own response to +-1,2,4 ulp moves of the rounded intermediate (perturbation oracle R3; the shared exact operand is not perturbed), floor 8 ulp.',
    TB + 'Pairing is by signature (constructors) or by opposite operator; the tolerance uses the implementation as its own sensitivity probe, '
    'so a defect that makes a relation wildly ill-conditioned in the same way in both directions would widen it.',
    'exhaustive enumeration of derived inverse pairs x magnitude grid with perturbation oracle', 'DESIGN.md section 7 C05')
reg('C18', 'exploration',
    'Exhaustive over a fixed table of 68 textbook definitions in every direction the tree offers (existence probed at compile time), 3 '
    'numeric types, magnitude grid over 80 binades with all arguments pairwise different (heat-capacity ratios also next to one, rotation-dominated gradients), reference in __float128 with the textbook '
    'constants, tolerance 8 ulp of the result; every member function that is a second spelling of a constructor is tied to that constructor.',
    TB + 'The formula table in harness/c18.cpp restates the textbook definitions named in the property.',
    'exhaustive table x magnitude grid against __float128 textbook reference', 'DESIGN.md section 7 C18')

reg('C19', 'model_checking',
    'Schedule enumeration on the real toolchains, generalised by a Spin model with validated traces. For {g++, clang++} x {-O0, -O2} x each '
    'of the 39 enumeration types, programs are generated in which four kinds of namespace-scope objects defined after the includes '
    '(ordinary, inline, variable template, class-template static member) are initialised from an observation function that exercises every '
    'table-backed facility for every enumerator (abbreviations, streaming, parsing, consistent units, related systems, constitutive model objects with all their serialisations and maps, run-time conversion '
    'dispatch in 3 numeric types through scalar/container/constructor/accessor/printing forms, compile-time paths, comparison); built as one '
    'translation unit, as two translation units in both link orders and (representative types in quick, all in thorough) as three translation '
    'units with another user object behind a different header, in 3 / all 6 link orders; each program must link, exit 0 and observe before '
    'main() exactly what main() observes; a translation unit that g++ builds and clang++ rejects is a violation too. The Promela model of [basic.start.static]/[basic.start.dynamic] (table classes read off the object '
    'files via guard variables) is checked over all initialisation orders the standard permits, and every real execution is replayed as a '
    'model trace (traces_validated_against_impl).',
    TB + 'clang++ 14 and g++ 12 as installed; the model is secondary - the verdict comes from executing the real programs.',
    'exhaustive build-and-run enumeration of compilers x optimisation levels x TU arrangements x link orders + Spin model with trace validation', 'DESIGN.md section 7 C19')
reg('C20', 'exploration',
    'Part 1: the harnesses of the other properties (every table lookup and conversion for every enumerator of the 39 enumeration types, '
    'container conversions, every entry point and mutator history of every quantity type, every tensor accessor/mutator one by one, '
    'direction/angle kernels, models) rebuilt under AddressSanitizer + UndefinedBehaviorSanitizer + libstdc++ debug mode and executed at '
    'their quick alphabets: any report, assertion or escaping exception is a violation. Part 2: ParseNumber<T> on ALL byte strings up to '
    'length 5 (quick) / 6 (thorough) over a 20-byte alphabet x 3 numeric types, differential against strtof/strtod/strtold, and '
    'ParseEnumeration on the C08 negative space (incl. embedded NUL, non-ASCII, unterminated views) for all 39 types; where a parser accepts a view the same bytes are also passed as an unterminated view into an exactly-sized heap block. '
    'Part 3: one free-running ThreadSanitizer pass over the const interface used from two threads at once (a data race is undefined behaviour). thorough adds a valgrind memcheck pass.',
    TB + 'Sanitizers observe only executed paths: coverage is that of the re-run harnesses. glibc strto* is the oracle for number parsing.',
    'exhaustive bounded string enumeration + sanitizer-instrumented re-execution of the exhaustive harnesses', 'DESIGN.md section 7 C20')

PENDING = 'check not built yet in this session (planned, see DESIGN.md section 7); not a statement that model checking cannot apply'


def main():
    props = [json.loads(l)['id'] for l in open('/verif/properties.jsonl')]
    kf = json.load(open('/verif/known_findings.json'))
    commits = []
    for line in kf.get('fixed', []):
        parts = line.split()
        commits.append(parts[2])
    engines = []
    for e in ENGINES:
        e = dict(e)
        if e['serves_properties'] == 'ALL':
            e['serves_properties'] = sorted(CHECKS)
        else:
            e['serves_properties'] = [p for p in e['serves_properties'] if p in CHECKS]
        engines.append(e)
    m = {
        'version': 1,
        'setup_cmd': 'true',
        'hooks': {
            'guard': 'ACODCHA_PHQ_VERIF',
            'enable': 'no guarded hooks exist or are needed: every check observes phq through its public API (and the iterable '
                      'Internal tables), sizeof/memcpy of trivially copyable objects and process exit status; the guard name is reserved only',
            'baseline_off_cmd': 'cmake -G Ninja -S /repo -B /repo/_build -DPHYSICAL_QUANTITIES_PHQ_TEST=ON && cmake --build /repo/_build -j 16 && ctest --test-dir /repo/_build -j 8 --timeout 900',
            'source_commits': [],
            'add_only': True,
        },
        'engines': engines,
        'checks': [CHECKS[p] for p in props if p in CHECKS],
        'notes': 'There are no hook commits (hooks.source_commits is empty, nothing in /repo is guarded). The unguarded "fix:" commits in /repo that '
                 'repair genuine defects found by these checks are ' + ', '.join(commits) + ' (see known_findings.json and DESIGN.md section 12.2). Every check rebuilds its harnesses from /repo/include keyed by a '
                 'content hash of the tree. Exit codes: 0 held, 1 VIOLATION, 2 machinery could not decide. Besides the axes named per check, the harnesses share general axes added after the '
                 'fifth mutation round (DESIGN.md 12.4): value category of arguments (named objects, temporaries, moved objects), ambient state left by earlier calls (errno, global and process locale), '
                 'results held by reference across a later call, object identity (both operands one object, a library constant vs its copy), and evaluation time (static const from literals, calls at exit). '
                 'The detection matrix of 184 confirmed seeded changes is in DESIGN.md 12.5 and /verif/seeded.',
        'not_applicable': [{'property_id': p, 'reason': PENDING} for p in props if p not in CHECKS],
    }
    json.dump(m, open('/verif/MANIFEST.json', 'w'), indent=1, ensure_ascii=False)
    print('checks:', len(m['checks']), 'pending:', len(m['not_applicable']))


if __name__ == '__main__':
    main()
