#!/usr/bin/env python3
"""apply a seeded patch to /repo, run the named checks (quick unless --tier), always revert.
usage: tools_mutant.py <patch.diff> <prop> [<prop> ...] [--tier thorough]"""
import subprocess, sys, time
args = sys.argv[1:]
tier = 'quick'
if '--tier' in args:
    i = args.index('--tier'); tier = args[i + 1]; del args[i:i + 2]
patch, props = args[0], args[1:]
st = subprocess.run(['git', '-C', '/repo', 'status', '--porcelain', '--untracked-files=no'], capture_output=True, text=True).stdout.strip()
if st:
    print('refusing: /repo has uncommitted changes:\n' + st); sys.exit(3)
r = subprocess.run(['git', '-C', '/repo', 'apply', patch], capture_output=True, text=True)
if r.returncode:
    print('patch does not apply:', r.stderr); sys.exit(3)
res = {}
try:
    for p in props:
        t = time.time()
        q = subprocess.run(['./check', p, '--tier', tier], capture_output=True, text=True, cwd='/verif')
        v = [l for l in q.stdout.splitlines() if l.startswith('VIOLATION')]
        und = [l for l in q.stdout.splitlines() if l.startswith('UNDECIDED')]
        det = [l for l in q.stdout.splitlines() if l.startswith('  detail:')]
        res[p] = (q.returncode, len(v))
        print('%s exit=%d violations=%d %.0fs %s' % (p, q.returncode, len(v), time.time() - t, und[0][:300] if und else ''))
        for l in det[:3]:
            print('   ', l[:400])
finally:
    subprocess.run(['git', '-C', '/repo', 'checkout', '--', '.'])
    print('reverted:', subprocess.run(['git', '-C', '/repo', 'status', '--porcelain', '--untracked-files=no'], capture_output=True, text=True).stdout.strip() or 'clean')
