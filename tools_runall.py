#!/usr/bin/env python3
"""run every registered check (quick unless --tier thorough) on the current tree, report exit codes and times"""
import json, subprocess, sys, time
tier = 'thorough' if '--tier' in sys.argv and sys.argv[sys.argv.index('--tier') + 1] == 'thorough' else 'quick'
only = [a for a in sys.argv[1:] if a.startswith('C')]
m = json.load(open('/verif/MANIFEST.json'))
bad = 0
for c in m['checks']:
    if only and c['property_id'] not in only:
        continue
    cmd = c['thorough_cmd'] if tier == 'thorough' and 'thorough_cmd' in c else c['quick_cmd']
    t = time.time()
    p = subprocess.run(cmd, shell=True, cwd='/verif', stdout=subprocess.PIPE, stderr=subprocess.STDOUT, text=True)
    last = [l for l in p.stdout.splitlines() if l.strip()][-1:] or ['']
    kn = sum(1 for l in p.stdout.splitlines() if l.startswith('KNOWN-FINDING'))
    vi = sum(1 for l in p.stdout.splitlines() if l.startswith('VIOLATION'))
    print('%s exit=%d %.0fs violations=%d known=%d | %s' % (c['property_id'], p.returncode, time.time() - t, vi, kn, last[0][:150]), flush=True)
    if p.returncode != 0:
        bad += 1
        print(p.stdout[-1500:])
sys.exit(1 if bad else 0)
