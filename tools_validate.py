#!/usr/bin/env python3
"""validate MANIFEST.json and evidence/*.json against the given schemas (needs jsonschema: python3-vt)"""
import glob, json, sys
import jsonschema
m = json.load(open('/verif/MANIFEST.json'))
jsonschema.validate(m, json.load(open('/root/.vp/MANIFEST.schema.json')))
es = json.load(open('/root/.vp/EVIDENCE.schema.json'))
bad = 0
for f in sorted(glob.glob('/verif/evidence/*.json')):
    try:
        jsonschema.validate(json.load(open(f)), es)
    except Exception as ex:
        bad += 1
        print('INVALID', f, str(ex)[:300])
props = [json.loads(l)['id'] for l in open('/verif/properties.jsonl')]
claimed = [c['property_id'] for c in m['checks']]
na = [c['property_id'] for c in m.get('not_applicable', [])]
for p in props:
    if (p in claimed) == (p in na):
        bad += 1
        print('property', p, 'must be exactly one of claimed / not_applicable')
print('manifest ok; checks=%d not_applicable=%d evidence_bad=%d' % (len(claimed), len(na), bad))
sys.exit(1 if bad else 0)
